#!/venv/bin/python
"""Entry point: run.py <property id> [--tier quick|thorough] [--replay file]

Exit 0: property held on everything explored (KNOWN-FINDING lines may be printed).
Exit 1: at least one `VIOLATION property=<id> replay=<path>` line was printed.
Exit 2: the machinery itself failed (HARNESS-ERROR) - never a verdict about nmfu.
"""
import os
import sys
import importlib

HERE = os.path.dirname(os.path.abspath(__file__))
if os.environ.get("PYTHONHASHSEED") != "0" and os.environ.get("NV_KEEP_HASHSEED") != "1":
    # reproducible str-hash order in every check (C20 varies it explicitly in its own children)
    os.environ["PYTHONHASHSEED"] = "0"
    os.execv(sys.executable, [sys.executable] + sys.argv)
sys.path.insert(0, HERE)
sys.setrecursionlimit(10000)


def main():
    import argparse
    ap = argparse.ArgumentParser()
    ap.add_argument("prop")
    ap.add_argument("--tier", default=os.environ.get("VERIF_TIER", "quick"), choices=["quick", "thorough"])
    ap.add_argument("--replay", default=None)
    a = ap.parse_args()
    seed = int(os.environ.get("VERIF_SEED", "0") or 0)
    pid = a.prop.upper()
    mod = importlib.import_module("checks." + pid.lower())
    if a.replay:
        sys.exit(mod.replay(a.replay))
    sys.exit(mod.run(a.tier, seed))


if __name__ == "__main__":
    main()
