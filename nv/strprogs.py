"""Buffer-heavy 'operation interpreter' programs: each input byte selects one string/raw operation, so all strings
<= L over the selector alphabet are all operation sequences <= L.  Every buffer is followed in declaration order by a
sentinel output (value 165) so that an overrun inside the struct is visible even where no sanitizer fires."""

DECL = """out str[2] p; out int{unsigned, size 1} z1 = 165;
out unterminated str[2] u; out int{unsigned, size 1} z2 = 165;
out raw{uint16_t} r; out int{unsigned, size 1} z3 = 165;
out str[3] s = "ab"; out int{unsigned, size 1} z4 = 165;
out str[4] t = "q"; out int{unsigned, size 1} z5 = 165;
out str[3] e0 = ""; out int{unsigned, size 1} z6 = 165;
out int{unsigned, size 1} n = 0; hook h;
"""
SENT = {"z1": 165, "z2": 165, "z3": 165, "z4": 165, "z5": 165, "z6": 165}

OPS = {
    "a": 'p += [65];', "b": 'delete p;', "c": 'p = "k";', "d": 'u += [66];', "e": 'u = "hi";', "f": 'r += [1];', "g": 's += [67];',
    "i": 's = "";', "j": 'n = [p.len + u.len + r.len + s.len + t.len]; h();', "k": 'if s.len > 0 { n = [s[0]]; } else { n = [s[7] + p[2] + u[2]]; } h();',
    "l": 'p += "xy";', "m": 'delete u; delete r;', "o": 's = "ab";', "q": 't += /[xy]/;', "v": 'delete t; t += [n + 65];', "w": 'u += "x";',
    "n": 'n = [p[p.len - 1] + u[u.len - 3] + t[n - 200]]; h();',
    "4": 'e0 += [69];', "5": 'n = [e0.len + e0[0]]; h();',
    "1": 'if p.len > 0 && p[0] == \'A\' { p = ""; } else { p += [90]; }', "2": 't = "abc";', "3": 'delete s; s += [s.len + 48];',
}
SETS = ["abcjl", "defjmw", "giokj", "adfgj", "abcij1", "qv2j3", "lwqbmj", "a1c3eo", "anbdm", "qnv2", "45gj"]
HANDLER = "delete p; delete u; delete r; delete s; delete t; delete e0; n = [n + 1]; h();"


# operations placed before the first match: they become start actions and run inside start(), after the defaults were stored
START_PREFIXES = ['s = "cd";', 'p = "k"; p = "j";', 'delete s;', 'delete s; s = "x"; t = "";', 't += [65]; p += [66]; u += [67];', 's = "cd"; delete s; s = "e"; u = "hi"; u = "k";',
                  'delete s; delete t; h();', 'p = "k"; delete p; s = "cd"; delete s; h();']


def program(ops, handler=HANDLER, safe_only=True, prefix=""):
    clauses = "\n".join('      "%s" -> { %s }' % (o, OPS[o]) for o in ops)
    return DECL + "parser {\n  " + prefix + "\n  loop {\n    try {\n      case {\n%s\n      }\n    } catch (outofspace) { %s }\n  }\n}\n" % (clauses, handler)


def alphabet(ops):
    a = set(ops.encode())
    if "l" in ops or "q" in ops or "w" in ops:
        a |= set(b"xy")
    return sorted(a)


def programs():
    out = []
    for ops in SETS:
        out.append(dict(label="STR-" + ops, src=program(ops), argv=[], alphabet=alphabet(ops), sentinels=SENT, uses_oob_index=("k" in ops or "n" in ops)))
    for i, pre in enumerate(START_PREFIXES):
        ops = ("giokj3", "abcjl", "giobj", "q2gij", "adgjm", "giodj", "gqjb", "acgjb")[i]
        out.append(dict(label="STR-start%d" % i, src=program(ops, prefix=pre), argv=[], alphabet=alphabet(ops), sentinels=SENT, uses_oob_index=("k" in ops or "n" in ops)))
    # non-loop shapes: zero-capacity string, defaults, exact fits
    out.append(dict(label="STR-cap0", src='out str[1] e; out int{unsigned, size 1} z1 = 165; hook h; parser { try { e += /a+/; } catch (outofspace) { h(); } "b"; }\n', argv=[], alphabet=list(b"ab"), sentinels={"z1": 165}, uses_oob_index=False))
    out.append(dict(label="STR-exact", src='out unterminated str[3] u = "abc"; out int{unsigned, size 1} z1 = 165; out str[4] s = "abc"; out int{unsigned, size 1} z2 = 165; hook h; parser { h(); loop { case { "a" -> { u = "xyz"; s = "xyz"; } "b" -> { delete u; u += /[xy]+/; ";"; } "c" -> { try { s += /[xy]/; } catch (outofspace) { delete s; h(); } } } } }\n',
                    argv=[], alphabet=list(b"abcxy;"), sentinels={"z1": 165, "z2": 165}, uses_oob_index=False))
    # a default-valued string whose only delete is nested (inside an action-only if / directly after a loop left by break): under on-demand
    # allocation with freeing deletes the buffer can be NULL afterwards although no transition carries a plain delete
    common = ' "g" -> { s += [67]; } "o" -> { s = "q"; } "j" -> { n = [s.len + s[0]]; h(); } "t" -> { n = 1; }'
    out.append(dict(label="STR-nested-delete", src='out str[3] s = "ab"; out int{unsigned, size 1} z1 = 165; out int{unsigned, size 1} n = 0; hook h; parser { loop { try { case { "d" -> { if n == 0 { delete s; } else { n = 0; } }'
                    + common + ' } } catch (outofspace) { s = "z"; h(); } } }\n', argv=[], alphabet=list(b"dgojt"), sentinels={"z1": 165}, uses_oob_index=True))
    out.append(dict(label="STR-afterloop-delete", src='out str[3] s = "ab"; out int{unsigned, size 1} z1 = 165; out int{unsigned, size 1} n = 0; hook h; parser { loop { try { case { "k" -> { loop { /[xy]/; if $last == \'y\' { break; } } delete s; }'
                    + common + ' } } catch (outofspace) { s = "z"; h(); } } }\n', argv=[], alphabet=list(b"kygoj"), sentinels={"z1": 165}, uses_oob_index=True))
    # reads of bytes that were written earlier and lie beyond the current length (defined as long as delete keeps the buffer)
    out.append(dict(label="STR-stale-read", src='out str[4] t; out int{unsigned, size 1} z1 = 165; out int{unsigned, size 1} n = 0; out int{unsigned, size 1} m = 0; hook h; parser { loop { try { case { "f" -> { t = "xyz"; m = 1; } "d" -> { delete t; } '
                    '"g" -> { if m == 1 { t += [68]; } } "j" -> { n = [t[2] + t[1]]; h(); } "i" -> { if t[2] == \'z\' { h(); } } } } catch (outofspace) { h(); t = "q"; } } }\n', argv=[], alphabet=list(b"fdgji"), sentinels={"z1": 165}, uses_oob_index=True,
                    skip_rows_with=["-fdelete-string-free-memory", "-fallocate-str-space-dynamic"], storage_only=[[], ["-fstrings-as-u8"], ["-fallocate-str-space-dynamic-on-demand"]]))
    # in-range reads of a buffer that does not exist (yet / any more); only under storage modes where every byte read is defined
    out.append(dict(label="STR-nullread", src='out str[3] s; out int{unsigned, size 1} z1 = 165; out int n = 0; hook h; parser { loop { case { "r" -> { n = [s[0] + s[2] + s[5]]; h(); } "w" -> { s = "ab"; } "d" -> { delete s; } "i" -> { if s[1] == \'b\' { h(); } } } } }\n',
                    argv=[], alphabet=list(b"rwdi"), sentinels={"z1": 165}, uses_oob_index=True, storage_only=[[], ["-fallocate-str-space-dynamic-on-demand"], ["-fallocate-str-space-dynamic-on-demand", "-fdelete-string-free-memory"]]))
    app = " ".join("big += [65];" for _ in range(64))
    out.append(dict(label="STR-big", src='out unterminated str[256] big; out int{unsigned, size 1} z1 = 165; out str[256] t; out int{unsigned, size 1} z2 = 165; out int{unsigned, size 2} k = 0; hook h;\n'
                    'parser { loop { try { case { "A" -> { %s } "B" -> { t += /[xy]+/; ";"; } "j" -> { k = [big.len + t.len]; h(); } } } catch (outofspace) { k = [big.len + t.len]; delete big; delete t; h(); } } }\n' % app,
                    argv=[], alphabet=list(b"ABjx;"), sentinels={"z1": 165, "z2": 165}, uses_oob_index=False))
    return out


MUST_REJECT = [
    ('out str[2] s = "abcdef"; parser { "a"; }', "default longer than the string"),
    ('out str[3] s = "abc"; parser { "a"; }', "default fills the terminator slot"),
    ('out unterminated str[2] s = "abc"; parser { "a"; }', "default longer than the unterminated string"),
    ('out str[3] s; parser { "a"; s = "abc"; }', "constant assignment longer than capacity"),
    ('out unterminated str[2] s; parser { "a"; s = "abc"; }', "constant assignment longer than capacity"),
    ('out str[0] s; parser { s += "a"; }', "zero-sized terminated string"),
]

STORAGE = [
    [], ["-fstrings-as-u8"], ["-fallocate-str-space-dynamic"], ["-fallocate-str-space-dynamic", "-fstrings-as-u8"],
    ["-fallocate-str-space-dynamic-on-demand"], ["-fallocate-str-space-dynamic-on-demand", "-fdelete-string-free-memory"],
    ["-fallocate-str-space-dynamic-on-demand", "-fdelete-string-free-memory", "-fstrings-as-u8"], ["-fallocate-str-space-dynamic", "-fdelete-string-free-memory"],
]
LEVELS = [[], ["-O2"], ["-O3"]]
