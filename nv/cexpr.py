"""Independent typed big-integer evaluator of C expressions over OUR expression AST (universe.py).

Shares nothing with the AM's evaluator (which walks nmfu's IntegerExpr tree).  Types are (bits, signed);
integer promotion, usual arithmetic conversions, truncating division, wrap on unsigned, UB on signed
overflow / bad shifts / division by zero.  Used by REF (C01/C17) and C14.
"""

INT = (32, True)
UINT = (32, False)
LONG = (64, True)


class CUB(Exception):
    """undefined or unspecified behaviour in C for this valuation"""


def fits(v, t):
    b, s = t
    return (-(1 << (b - 1)) <= v < (1 << (b - 1))) if s else (0 <= v < (1 << b))


def wrap(v, t):
    b, s = t
    v &= (1 << b) - 1
    if s and v >> (b - 1):
        v -= 1 << b
    return v


def promote(t):
    return INT if t[0] < 32 else t


def uac(a, b):
    a, b = promote(a), promote(b)
    if a == b:
        return a
    if a[1] == b[1]:
        return max(a, b)
    u, s = (a, b) if not a[1] else (b, a)
    return u if u[0] >= s[0] else s


def conv(v, t):
    return v if (t[1] and fits(v, t)) else wrap(v, t)


class Env:
    """variable model: name -> dict(kind=int|bool|enum|str|raw, type=(bits,signed), cap, term, values...)"""

    def __init__(self, decls, unsafe_index=False, char_signed=False):
        self.decls = decls
        self.unsafe_index = unsafe_index
        self.char_signed = char_signed


def ev(e, env, data, last):
    """-> (value, ctype)"""
    k = e[0]
    if k == "num":
        v = e[1]
        return (v, INT) if fits(abs(v), INT) else (v, LONG)
    if k == "char":
        return e[1], INT
    if k == "bool":
        return int(e[1]), INT
    if k == "enum":
        return e[2] if len(e) > 2 else env.enum_value(e[1]), INT
    if k == "var":
        d = env.decls[e[1]]
        v = data[e[1]]
        if d["kind"] == "int":
            return v, promote(d["type"])
        if d["kind"] == "enum":
            return v, UINT
        return v, INT
    if k == "len":
        return len(data[e[1]]), INT
    if k == "idx":
        i, _ = ev(e[2], env, data, last)
        d = env.decls[e[1]]
        buf = data[e[1]]
        size = d["size"]
        if not (0 <= i < size):
            if env.unsafe_index:
                raise CUB("index out of range")
            return 0, INT
        if i < len(buf):
            b = buf[i]
            if d["kind"] == "str" and env.char_signed and b >= 128:
                b -= 256
            return b, INT
        if d["kind"] == "str" and d["term"] and i == len(buf) and len(buf) > 0:
            return 0, INT
        raise CUB("read of never-written buffer byte")
    if k == "last":
        if last is None:
            raise CUB("$last without a byte")
        return last, INT
    if k == "not":
        v, _ = ev(e[1], env, data, last)
        return int(v == 0), INT
    if k == "neg":
        v, t = ev(e[1], env, data, last)
        return arith("-", 0, INT, v, t)
    if k == "bin":
        op = e[1]
        if op == "||":
            return (1, INT) if (ev(e[2], env, data, last)[0] or ev(e[3], env, data, last)[0]) else (0, INT)
        if op == "&&":
            return (1, INT) if (ev(e[2], env, data, last)[0] and ev(e[3], env, data, last)[0]) else (0, INT)
        a, ta = ev(e[2], env, data, last)
        b, tb = ev(e[3], env, data, last)
        if op in ("==", "!=", "<", ">", "<=", ">="):
            t = uac(ta, tb)
            x, y = conv(a, t), conv(b, t)
            return int({"==": x == y, "!=": x != y, "<": x < y, ">": x > y, "<=": x <= y, ">=": x >= y}[op]), INT
        if op in ("<<", ">>"):
            t = promote(ta)
            x = conv(a, t)
            if b < 0 or b >= t[0]:
                raise CUB("shift count")
            if op == "<<":
                if t[1]:
                    if x < 0 or not fits(x << b, t):
                        raise CUB("signed left shift")
                    return x << b, t
                return wrap(x << b, t), t
            return x >> b, t
        return arith(op, a, ta, b, tb)
    raise ValueError(e)


def arith(op, a, ta, b, tb):
    t = uac(ta, tb)
    x, y = conv(a, t), conv(b, t)
    if op == "+":
        v = x + y
    elif op == "-":
        v = x - y
    elif op == "*":
        v = x * y
    elif op in ("/", "%"):
        if y == 0:
            raise CUB("division by zero")
        q = abs(x) // abs(y)
        if (x < 0) != (y < 0):
            q = -q
        if t[1] and not fits(q, t):
            raise CUB("overflow in division")
        v = q if op == "/" else x - q * y
    elif op == "|":
        v = x | y
    elif op == "^":
        v = x ^ y
    elif op == "&":
        v = x & y
    else:
        raise ValueError(op)
    if t[1]:
        if not fits(v, t):
            raise CUB("signed overflow")
        return v, t
    return wrap(v, t), t


def store(d, v):
    """convert to the declared type of a variable"""
    if d["kind"] == "bool":
        return int(v != 0)
    if d["kind"] == "enum":
        return v
    return wrap(v, d["type"])


# declarations matching universe.ENV
DECLS = {
    "s": dict(kind="str", size=3, cap=2, term=True), "u": dict(kind="str", size=2, cap=2, term=False),
    "t": dict(kind="str", size=4, cap=3, term=True), "r": dict(kind="raw", size=2, cap=2, term=False),
    "n": dict(kind="int", type=(8, False), default=0), "m": dict(kind="int", type=(32, True), default=0),
    "k": dict(kind="int", type=(16, True), default=0), "f": dict(kind="bool", default=0),
    "e": dict(kind="enum", values=("A", "B", "C"), default=0),
}


def default_data(names, decls=DECLS):
    out = {}
    for n in names:
        d = decls[n]
        out[n] = b"" if d["kind"] in ("str", "raw") else d.get("default", 0)
    return out


def enum_index(decls, var, name):
    return decls[var]["values"].index(name)
