"""Conformance between the AM and the emitted C: forced single steps (C06) and whole-input replays
(used by every product search to validate its BFS witness paths on the implementation)."""
from .loader import N
from .am import AM, UB, Spin, END, RAW_SIZES, int_ctype, wrap
from . import cbuild

T = N.OutputStorageType


def contexts(am, rich=False):
    """data contexts: make each buffer empty / full / partial and each int/bool/enum take boundary values"""
    spec = am.spec
    base = {}
    alts = {}
    for nm, o in spec.items():
        if o.type == T.STR:
            cap = am.capacity(o)
            vals = [b"", b"a" * cap, b"b" * max(cap - 1, 0), (b"aC" + b"a" * cap)[:max(cap // 2, min(cap, 2))]]
        elif o.type == T.RAW:
            cap = am.capacity(o)
            vals = [b"", b"\x22" * cap, b"\x01" * max(cap - 1, 0), b"\x05" * (cap // 2)]
        elif o.type == T.BOOL:
            vals = [0, 1]
        elif o.type == T.ENUM:
            vals = list(range(len(o.enum_values)))
        else:
            ct = int_ctype(o)
            vals = [0, 1, 2, wrap(-1, ct), 101, 4]
        seen = []
        for v in vals:
            if v not in seen:
                seen.append(v)
        base[nm] = seen[0]
        alts[nm] = seen
    out = [dict(base)]
    # diagonal contexts
    for k in range(1, 4):
        out.append({nm: alts[nm][k % len(alts[nm])] for nm in spec})
    # one-at-a-time variation
    for nm in spec:
        for v in alts[nm][1:]:
            c = dict(base)
            c[nm] = v
            if c not in out:
                out.append(c)
    if not rich:
        out = out[:10]
    return out


def hooks_of(ev):
    return [(e[1], e[2], dict(e[3])) for e in ev if e[0] == "hook"]


def norm_cdata(cp_spec, cdata):
    out = {}
    for nm, o in cp_spec.items():
        v = cdata[nm]
        if o.type == T.INT:
            v = wrap(v, int_ctype(o))
        out[nm] = v
    return out


def data_eq(spec, cdata, cmeta, amdata, written=None):
    """C snapshot vs AM data image; also the terminator invariant for terminated strings.  `written`: names of strings whose buffer is known to have been
    written (by the parser earlier in this run, or by the harness when it forced the context; None = unknown): those, and strings with a default value, must be
    empty C strings when their length is 0 - start() does not terminate a string it never writes, so nothing is asked of the others"""
    for nm, o in spec.items():
        cv, av = cdata[nm], amdata[nm]
        if o.type == T.INT:
            cv = wrap(cv, int_ctype(o))
        if o.type == T.STR and cv is None:
            return "%s: counter>0 with NULL pointer" % nm
        if cv != av:
            return "%s: C=%r AM=%r" % (nm, cv, av)
        if o.type == T.STR and o.str_null and cmeta.get(nm) not in (0, "nullptr") and (len(av) > 0 or o.default_value is not None or (written is not None and nm in written)):
            return "%s: missing NUL terminator (byte %r)" % (nm, cmeta.get(nm))
    return None


def am_step(am, si, ctx, sym):
    """-> dict(code, adv, hooks, state, data) or raises UB / Spin"""
    cfg = am.mkcfg(si, ctx)
    if sym == END:
        code, ev = am.end(cfg)
        adv = 0
    else:
        code, adv, ev = am.feed_byte(cfg, sym)
    return dict(code="OK" if code == "OK*" else code, raw=code, adv=adv, hooks=hooks_of(ev), ev=ev,
                state=am.state_index(cfg), data=cfg["data"])


def compare_step(cp, recs, pos, exp, am, what):
    """consume the records of one forced step (hooks..., F|E, N) starting at recs[pos]; -> (newpos, problem|None)"""
    hooks = []
    while pos < len(recs) and recs[pos][0] == "H":
        hooks.append(recs[pos])
        pos += 1
    if pos + 1 >= len(recs) + 0 and pos >= len(recs):
        return pos, "C output ended early"
    r = recs[pos]
    pos += 1
    if r[0] not in ("F", "E"):
        return pos, "unexpected record %r" % (r[0],)
    ccode = r[1]
    n = recs[pos] if pos < len(recs) else None
    pos += 1
    if n is None or n[0] != "N":
        return pos, "missing snapshot"
    prob = None
    if ccode != exp["code"]:
        prob = "result code C=%s AM=%s" % (ccode, exp["raw"])
    elif r[0] == "F" and r[2] >= 0 and r[2] != exp["consumed"]:
        prob = "bytes consumed C=%d AM=%d" % (r[2], exp["consumed"])
    elif [(h[1], h[2]) for h in hooks] != [(h[0], h[1]) for h in exp["hooks"]]:
        prob = "hook calls C=%r AM=%r" % ([(h[1], h[2]) for h in hooks], [(h[0], h[1]) for h in exp["hooks"]])
    else:
        for hc, ha in zip(hooks, exp["hooks"]):
            d = data_eq(am.spec, hc[4], hc[5], ha[2])
            if d:
                prob = "outputs visible to hook %s differ: %s" % (hc[1], d)
                break
    if prob is None and n[1] != exp["state"] and exp["state"] >= 0:
        prob = "next state C=%d AM=%d" % (n[1], exp["state"])
    if prob is None:
        d = data_eq(am.spec, n[2], n[3], exp["data"])
        if d:
            prob = "outputs after step differ: %s" % d
    return pos, prob


def am_run(am, data, end=False, chunks=None):
    """run the AM over a whole input the way a caller drives feed(): returns list of call results
    [(kind, code, consumed, hooks)], final data, final state.  chunks: list of chunk lengths (None = one chunk).
    Re-invokes after yields at the returned position; stops at the first terminal code."""
    cfg, code, ev = am.start()
    calls = [("S", code, 0, hooks_of(ev))]
    if code != "OK":
        return calls, cfg
    pos = 0
    lens = chunks if chunks is not None else [len(data)]
    bounds = []
    p = 0
    for L in lens:
        bounds.append((p, p + L))
        p += L
    terminal = False
    for (a, b) in bounds:
        cur = a
        while True:
            code, cons, ev = am.feed(cfg, data[cur:b])
            calls.append(("F", code, cons, hooks_of(ev), cur))
            cur += cons
            if code.startswith("YIELD"):
                if cur >= b:
                    break
                continue
            if code != "OK":
                terminal = True
            break
        if terminal:
            break
    if end and not terminal and am.eof:
        code, ev = am.end(cfg)
        calls.append(("E", code, 0, hooks_of(ev)))
    return calls, cfg


def c_script_for_calls(cp, data, calls):
    """build the op script that performs exactly the AM's call sequence on the C"""
    ops = [cp.op_zero(), cp.op_start()]
    for c in calls[1:]:
        if c[0] == "F":
            # chunk = from c[4] to the end of its chunk: recomputed by caller (we pass explicit slices)
            raise NotImplementedError
    return b"".join(ops)


def replay_input(cp, am, data, end=False, chunkings=("one", "bytes")):
    """Run `data` through the C binary (one chunk and byte-wise, re-invoking after yields) and compare every call
    result, hook (name, argument, visible outputs) and the final outputs with the AM.  -> (problem|None, ncalls)"""
    ncalls = 0
    for mode in chunkings:
        lens = [len(data)] if mode == "one" else [1] * len(data)
        if not data:
            lens = []
        try:
            calls, cfg = am_run(am, data, end=end, chunks=lens)
        except (UB, Spin):
            return None, ncalls
        # build script following the AM's call sequence
        ops = [cp.op_zero(), cp.op_start()]
        p = 0
        bounds = []
        for L in lens:
            bounds.append((p, p + L))
            p += L
        bi = 0
        for c in calls[1:]:
            if c[0] == "F":
                cur = c[4]
                while not (bounds[bi][0] <= cur < bounds[bi][1]) and bi + 1 < len(bounds):
                    bi += 1
                ops.append(cp.op_feed(data[cur:bounds[bi][1]], cur))
            else:
                ops.append(cp.op_end())
        ops.append(cp.op_snap())
        recs, status = cp.run(b"".join(ops))
        if status != "ok":
            return "C run %s on input %r (%s): %s" % (status, bytes(data), mode, cp.stderr[-300:]), ncalls
        # split records per call
        ri = 0
        written = set()
        for c in calls:
            hooks = []
            while ri < len(recs) and recs[ri][0] == "H":
                hooks.append(recs[ri])
                ri += 1
            if ri >= len(recs):
                return "C output ended early on %r (%s)" % (bytes(data), mode), ncalls
            r = recs[ri]
            ri += 1
            ncalls += 1
            if r[0] != c[0] or r[1] != c[1]:
                return "call %s: C returned %s, machine %s; input %r (%s)" % (c[0], r[1], c[1], bytes(data), mode), ncalls
            if c[0] == "F" and r[2] >= 0 and r[2] != c[2]:
                return "feed consumed C=%d machine=%d; input %r (%s) at offset %d" % (r[2], c[2], bytes(data), mode, c[4]), ncalls
            if [(h[1], h[2]) for h in hooks] != [(h[0], h[1]) for h in c[3]]:
                return "hook sequence C=%r machine=%r; input %r (%s)" % ([(h[1], h[2]) for h in hooks], [(h[0], h[1]) for h in c[3]], bytes(data), mode), ncalls
            for hc, ha in zip(hooks, c[3]):
                d = data_eq(am.spec, hc[4], hc[5], ha[2], written)
                written |= {nm for nm, o in am.spec.items() if o.type == T.STR and len(ha[2][nm]) > 0}
                if d:
                    return "outputs visible to hook %s: %s; input %r (%s)" % (hc[1], d, bytes(data), mode), ncalls
        n = recs[ri] if ri < len(recs) else None
        if n is None or n[0] != "N":
            return "missing final snapshot", ncalls
        d = data_eq(am.spec, n[2], n[3], cfg["data"], written)
        if d:
            return "final outputs: %s; input %r (%s)" % (d, bytes(data), mode), ncalls
    return None, ncalls


def am_witnesses(am, reps, limit=40, maxlen=24, max_states=3000):
    """shortest input reaching each reachable (machine state, data) configuration: BFS over the AM alone"""
    from collections import deque
    cfg0, code0, _ = am.start()
    if code0 != "OK":
        return [b""]
    seen = {am.key(cfg0): b""}
    fr = deque([am.key(cfg0)])
    out = [b""]
    states_seen = set()
    while fr and len(seen) < max_states:
        k = fr.popleft()
        path = seen[k]
        if len(path) >= maxlen:
            continue
        for c in reps:
            cfg = am.mkcfg(k[0], dict(k[1]))
            try:
                code, adv, ev = am.feed_byte(cfg, c)
                guard = 0
                while code.startswith("YIELD") and not adv and guard < 16:
                    code, adv, ev = am.feed_byte(cfg, c)
                    guard += 1
            except (UB, Spin):
                continue
            if code not in ("OK",) and not code.startswith("YIELD"):
                if (k[0], c, code) not in states_seen and len(out) < limit:
                    states_seen.add((k[0], c, code))
                    out.append(path + bytes([c]))
                continue
            k2 = am.key(cfg)
            if k2 not in seen:
                seen[k2] = path + bytes([c])
                fr.append(k2)
                if k2[0] not in states_seen and len(out) < limit:
                    states_seen.add(k2[0])
                    out.append(path + bytes([c]))
    return out
