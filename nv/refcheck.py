"""Joint exploration of REF (procedural reading) and the AM (compiled machine) with the lead-buffer comparison
of DESIGN.md section 3.5.  Used by C01 (bytes), C17 (end-of-input), C09 (ambiguity witnesses in accepted programs)."""
from collections import deque
from . import universe as U, bisim, deriv as D
from .am import AM, UB, Spin, END
from .ref import Ref, RefUB, RefAmbiguous, RefDiverge


def obs(ev):
    """AM events (bisim._conv format or raw) -> REF-comparable events"""
    out = []
    for x in ev:
        e = x[0] if isinstance(x[0], tuple) else x
        k = e[0]
        if k == "hook":
            # bisim format: ("hook", name, snapshot) ; raw format: ("hook", name, arg, snapshot)
            out.append(("hook", e[1], e[-1]))
        elif k in ("append", "selfset"):
            out.append(tuple(e[:3]) if k == "append" else ("selfset", e[1]))
        elif k in ("yield", "finish"):
            out.append((k, e[1], e[2]))
    return out


def am_step(am, cfg, c):
    """like bisim.step_sym but keeps selfset events; -> (code, events)"""
    evs = []
    if c == END:
        code, ev = am.end(cfg)
        return code, obs(ev)
    for _ in range(64):
        code, adv, ev = am.feed_byte(cfg, c)
        evs += obs(ev)
        if code.startswith("YIELD"):
            if adv:
                return "OK", evs
            continue
        return ("OK" if code == "OK*" else code), evs
    raise Spin("yields for ever without consuming", am.state_index(cfg))


class Outcome:
    def __init__(self):
        self.status = "ok"
        self.states = self.trans = 0
        self.problem = None
        self.path = None
        self.ambiguous = []
        self.diverge = []
        self.spins = []
        self.skipped_ub = 0
        self.shapes = set()
        self.witnesses = []


def explore(am, ref, reps, with_end=False, max_states=4000, want_witnesses=0):
    out = Outcome()
    cfg0, code0, ev0 = am.start()
    r0 = ref.init()
    try:
        t0 = ref.run(r0, None, nosym=True)
    except RefUB:
        out.status = "ub-at-start"
        return out
    except RefDiverge as e:
        out.diverge.append((b"", str(e)))
        out.status = "ref-diverges"
        return out
    S0 = obs(ev0)
    T0 = t0["pre"]
    toc = t0["outcome"]
    if code0 != "OK":
        want = "DONE" if toc[0] == "end" else (toc[1] if toc[0] == "term" else None)
        if want != code0 or S0 != T0:
            out.problem = "start(): machine returns %s with %s, procedural reading gives %s with %s" % (code0, brief(S0), want, brief(T0))
            out.path = b""
        return out
    if S0 != T0[:len(S0)]:
        out.problem = "start(): machine ran %s, procedural reading starts with %s" % (brief(S0), brief(T0))
        out.path = b""
        return out
    syms = list(reps) + ([END] if with_end else [])
    has_foreach = any(st[0] == "foreach" for st in U.walk(ref.prog))
    nested_foreach = any(st[0] == "foreach" and any(x[0] == "foreach" for x in U.walk(tuple(st[1]))) for st in U.walk(ref.prog))
    init = (am.key(cfg0), r0, tuple(S0))
    seen = {init: b""}
    front = deque([init])

    def bad(why, path, S, X, code, oc):
        out.problem = "%s | machine: %s %s | procedural reading: %s %s" % (why, code, brief(S), oc, brief(X))
        out.path = path
        return out

    while front:
        st = front.popleft()
        akey, rcfg, lead = st
        path = seen[st]
        out.states += 1
        if want_witnesses and len(out.witnesses) < want_witnesses:
            out.witnesses.append(path)
        if out.states > max_states:
            out.status = "capped"
            break
        for c in syms:
            out.trans += 1
            cfg = am.mkcfg(akey[0], dict(akey[1]))
            p2 = path + (bytes([c]) if c != END else b"")
            tag = p2 if c != END else p2 + b"<END>"
            alts = [dict()]
            if has_foreach:
                alts.append(dict(foreach_first=True))
            if nested_foreach:
                alts += [dict(a, each_outer_first=True) for a in list(alts)]
            alts += [dict(a, rend_done=True) for a in list(alts)]
            try:
                r = ref.run(rcfg, c)
            except RefUB:
                out.skipped_ub += 1
                continue
            except RefAmbiguous as e:
                out.ambiguous.append((tag, e.what))
                continue
            except RefDiverge as e:
                out.diverge.append((tag, str(e)))
                continue
            try:
                code, ev = am_step(am, cfg, c)
            except UB:
                out.skipped_ub += 1
                continue
            except Spin as e:
                out.spins.append((tag, str(e)))
                continue
            S = list(lead) + ev
            out.shapes.add((r["outcome"][0], code, len(ev) > 0))
            verdict = judge(am, ref, cfg, S, code, r["pre"], r["outcome"], r.get("cfg"), c)
            if verdict[0] == "bad" and r["outcome"][0] == "consumed":
                # eager alternative for a char-append overflow that sits right after this byte (see Ref.run probe)
                try:
                    r2 = ref.run(r["cfg"], c, probe=True)
                except (RefUB, RefAmbiguous, RefDiverge):
                    r2 = None
                if r2 is not None and r2["outcome"][0] != "noalt":
                    v2 = judge(am, ref, cfg, S, code, r["pre"] + r2["pre"], r2["outcome"], r2.get("cfg"), c)
                    if v2[0] != "bad":
                        verdict = v2
                        out.shapes.add(("eager-oos", code, True))
            if verdict[0] == "bad":
                # spec-open alternatives: order of a byte's own append vs. the each-actions of an enclosing foreach; whether an unclaimed
                # symbol at the end of the program is a mismatch at the deciding construct or simply left unconsumed after DONE
                for kw in alts[1:]:
                    try:
                        r3 = ref.run(rcfg, c, **kw)
                    except (RefUB, RefAmbiguous, RefDiverge):
                        continue
                    if kw.get("rend_done") and not r3.get("rend"):
                        continue
                    v3 = judge(am, ref, cfg, S, code, r3["pre"], r3["outcome"], r3.get("cfg"), c)
                    if v3[0] != "bad":
                        verdict = v3
                        out.shapes.add(("alt:" + ",".join(sorted(kw)), code, True))
                        break
            if verdict[0] == "bad":
                out.problem = "%s | machine: %s %s | procedural reading: %s %s" % (verdict[1], code, brief(S), r["outcome"], brief(verdict[2]))
                out.path = tag
                return out
            if verdict[0] == "skip":
                if verdict[1] == "ub":
                    out.skipped_ub += 1
                else:
                    out.diverge.append((tag, verdict[1]))
                continue
            if verdict[0] == "next":
                key = (am.key(cfg), verdict[1], tuple(verdict[2]))
                if key not in seen:
                    seen[key] = p2
                    front.append(key)
    return out


def judge(am, ref, cfg, S, code, X, oc, rnext, c):
    """-> ("ok",) | ("next", ref cfg, lead) | ("bad", why, expected events) | ("skip", reason)"""
    if oc[0] == "fail":
        if code != "FAIL":
            return ("bad", "procedural reading fails at this symbol, machine does not", X)
        if S != X[:len(S)]:
            return ("bad", "events before the failure differ", X)
        return ("ok",)
    if oc[0] == "term":
        if code != oc[1]:
            return ("bad", "program ends here with %s, machine returns %s" % (oc[1], code), X)
        if S != X:
            return ("bad", "events before the end of the program differ", X)
        return ("ok",)
    if code == "FAIL" and c != END:
        return ("bad", "machine fails where the procedural reading consumes the symbol", X)
    if S[:len(X)] != X:
        return ("bad", "events up to the consumption of this symbol differ", X)
    post = S[len(X):]
    try:
        tail = ref.run(rnext, None, nosym=True)
    except RefUB:
        return ("skip", "ub")
    except RefDiverge as e:
        return ("skip", str(e))
    T = tail["pre"]
    tc = tail["outcome"]
    if c == END:
        want = "DONE" if tc[0] == "end" else (tc[1] if tc[0] == "term" else "FAIL")
        if code != want:
            return ("bad", "after consuming end-of-input the program %s; machine returns %s" % ("ends with " + want if want != "FAIL" else "needs more input (FAIL)", code), X + T)
        if (post != T) if want != "FAIL" else (post != T[:len(post)]):
            return ("bad", "events after the end pattern differ", X + T)
        return ("ok",)
    if code == "OK":
        if post != T[:len(post)]:
            return ("bad", "machine ran events after consuming that the procedural reading does not have next", X + T)
        return ("next", rnext, post)
    want = "DONE" if tc[0] == "end" else (tc[1] if tc[0] == "term" else None)
    if want != code:
        return ("bad", "machine ends the parse with %s on this byte; procedural reading: %s" % (code, want or "continues"), X + T)
    if post != T:
        return ("bad", "events at the end of the program differ", X + T)
    return ("ok",)


def brief(S):
    out = []
    for e in S[-6:]:
        if e[0] == "hook":
            out.append("hook %s %s" % (e[1], dict(e[2])))
        elif e[0] in ("yield", "finish"):
            out.append("%s %s %s" % (e[0], e[1], dict(e[2])))
        else:
            out.append(" ".join(map(str, e)))
    return "[" + "; ".join(out) + "]"
