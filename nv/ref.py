"""REF - reference interpreter: the procedural reading of a program (our AST), as a transition system in
LAZY NORMAL FORM: after consuming a byte it stops; everything up to the next consumption is executed when
the next symbol (a byte or END) arrives.  See DESIGN.md section 3.5 (incl. rule R-END).
"""
from . import deriv as D
from . import universe as U
from . import cexpr

END = D.END
NUL = D.NUL


class Err(Exception):
    def __init__(self, reason):
        self.reason = reason


class RefUB(Exception):
    """C-undefined arithmetic in an action: the valuation is skipped"""


class RefAmbiguous(Exception):
    """two continuations for one byte: a C09 witness (accepted programs must not have any)"""

    def __init__(self, what):
        super().__init__(what)
        self.what = what


class RefDiverge(Exception):
    """control flow goes round without consuming: program should have been rejected (C04)"""


ACTION_KINDS = ("hook", "set", "setstr", "appendc", "delete", "finish", "yield", "break")


class Ref:
    def __init__(self, stmts, reps, decls=None, with_end=False):
        self.prog = tuple(stmts)
        self.reps = [r for r in reps if r != END]
        self.syms = list(self.reps) + ([END] if with_end else [])
        self.decls = decls or cexpr.DECLS
        self.env = cexpr.Env(self.decls)
        outs, _, _, _ = U.used(self.prog)
        self.names = sorted(outs)
        self._core = {}
        self._dfa = {}
        self._first = {}

    # ------------------------------------------------------------------ automata helpers
    def core(self, m):
        r = self._core.get(m)
        if r is None:
            r = self._core[m] = U.m_core(m)
        return r

    def dfa(self, r):
        d = self._dfa.get(r)
        if d is None:
            d = self._dfa[r] = D.Dfa(r, self.syms)
        return d

    def live(self, r0, q, c):
        return not self.dfa(r0).dead(D.deriv(q, c))

    def closed(self, r0, q):
        return all(self.dfa(r0).dead(D.deriv(q, c)) for c in self.syms)

    # ------------------------------------------------------------------ first sets (syntactic, branch-insensitive)
    def first_dyn(self, stmts, data, last):
        """like first(strict=True) but an `if` that is reached without an intervening data change is resolved with the current data"""
        F = set()
        for i, st in enumerate(stmts):
            k = st[0]
            if k == "if":
                chosen = None
                try:
                    for cnd, body in st[1]:
                        if cexpr.ev(cnd, self.env, data, last)[0] != 0:
                            chosen = tuple(body)
                            break
                    else:
                        chosen = tuple(st[2]) if st[2] is not None else ()
                except cexpr.CUB:
                    f, e = self.first(tuple(stmts[i:]), True)
                    return F | f, e
                f, e = self.first_dyn(chosen, data, last)
                F |= f
                if not e:
                    return F, False
                continue
            if k in ("hook", "yield"):
                continue
            # anything else (including data-changing actions): fall back to the static, branch-insensitive sets
            f, e = self.first(tuple(stmts[i:]), True)
            return F | f, e
        return F, True

    def first(self, stmts, strict=False):
        """-> (frozenset of symbols that may be consumed first, can_complete_without_consuming)
        strict: a wait contributes only the bytes that can start its pattern (bytes it merely skips do not 'start' it)"""
        key = (stmts, strict)
        if key in self._first:
            return self._first[key]
        F = set()
        empty = True
        for st in stmts:
            k = st[0]
            if k in ("match", "append"):
                r = self.core(st[-1])
                F |= {c for c in self.syms if self.live(r, r, c)}
                if not D.nullable(r):
                    empty = False
                    break
            elif k == "wait":
                if not strict:
                    F |= set(self.reps)
                r = self.core(st[1])
                F |= {c for c in self.syms if self.live(r, r, c)}
                empty = False
                break
            elif k in ("finish",):
                empty = False
                break
            elif k == "break":
                break   # leaves the sequence; what follows the loop decides (over-approximated by caller)
            elif k in ("hook", "set", "setstr", "appendc", "delete", "yield"):
                continue
            elif k == "optional":
                F |= self.first(st[1], strict)[0]
            elif k == "loop":
                f, e = self.first(st[2], strict)
                F |= f
                if not e:
                    empty = False
                    break
            elif k == "try":
                f, e = self.first(st[1], strict)
                F |= f
                if not e:
                    empty = False
                    break
            elif k == "foreach":
                f, e = self.first(st[1], strict)
                F |= f
                if not e:
                    empty = False
                    break
            elif k == "if":
                allnonempty = st[2] is not None
                for cnd, body in st[1]:
                    f, e = self.first(body, strict)
                    F |= f
                    if e:
                        allnonempty = False
                if st[2] is not None:
                    f, e = self.first(st[2], strict)
                    F |= f
                    if e:
                        allnonempty = False
                if allnonempty:
                    empty = False
                    break
            elif k == "case":
                has_else = False
                for prio, pats, body in st[2]:
                    for p in pats:
                        if p == "else":
                            has_else = True
                        else:
                            r = self.core(p)
                            F |= {c for c in self.syms if self.live(r, r, c)}
                if has_else and not strict:
                    F |= set(self.syms)
                empty = False
                break
            else:
                raise ValueError(st)
        res = (frozenset(F), empty)
        self._first[key] = res
        return res

    def fx(self, stmts, strict, data=None, last=None, dyn=False):
        """exit-aware first set -> (symbols that may be consumed first, ways of completing without consuming: "fall" | ("break", label)).
        dyn: an `if` reached without an intervening data change is resolved with the current data"""
        F = set()
        exits = set()
        for st in stmts:
            k = st[0]
            if k in ("match", "append"):
                r = self.core(st[-1])
                F |= {c for c in self.syms if self.live(r, r, c)}
                if not D.nullable(r):
                    return F, exits
            elif k == "wait":
                if not strict:
                    F |= set(self.reps)
                r = self.core(st[1])
                F |= {c for c in self.syms if self.live(r, r, c)}
                return F, exits
            elif k == "finish":
                return F, exits
            elif k == "break":
                exits.add(("break", st[1]))
                return F, exits
            elif k in ("hook", "yield"):
                continue
            elif k in ("set", "setstr", "appendc", "delete"):
                dyn = False
            elif k == "optional":
                f, ex = self.fx(tuple(st[1]), strict, data, last, dyn)
                F |= f
                exits |= ex - {"fall"}
            elif k == "loop":
                f, ex = self.fx(tuple(st[2]), strict, data, last, dyn)
                F |= f
                own = {x for x in ex if x != "fall" and (x[1] is None or x[1] == st[1])}
                exits |= ex - {"fall"} - own
                if not own and "fall" not in ex:
                    return F, exits
            elif k in ("try", "foreach"):
                f, ex = self.fx(tuple(st[1]), strict, data, last, dyn)
                F |= f
                exits |= ex - {"fall"}
                if "fall" not in ex:
                    return F, exits
            elif k == "if":
                branches = None
                if dyn and data is not None:
                    try:
                        for cnd, body in st[1]:
                            if cexpr.ev(cnd, self.env, data, last)[0] != 0:
                                branches = [tuple(body)]
                                break
                        else:
                            branches = [tuple(st[2]) if st[2] is not None else ()]
                    except cexpr.CUB:
                        branches = None
                if branches is None:
                    branches = [tuple(body) for cnd, body in st[1]] + [tuple(st[2]) if st[2] is not None else ()]
                exf = set()
                for body in branches:
                    f, ex = self.fx(body, strict, data, last, dyn)
                    F |= f
                    exf |= ex
                exits |= exf - {"fall"}
                if "fall" not in exf:
                    return F, exits
            elif k == "case":
                has_else = False
                for prio, pats, body in st[2]:
                    for p in pats:
                        if p == "else":
                            has_else = True
                        else:
                            r = self.core(p)
                            F |= {c for c in self.syms if self.live(r, r, c)}
                if has_else and not strict:
                    F |= set(self.syms)
                return F, exits
            else:
                raise ValueError(st)
        exits.add("fall")
        return F, exits

    def cont_first(self, stack, strict=False, data=None, last=None):
        """symbols the continuation (everything after the current statement) can consume first.  Follows the control flow exactly:
        completing a loop body restarts it, a break continues after its loop (and never restarts it)"""
        F = set()
        dyn = strict and data is not None
        pend = {"fall"}
        for fr in reversed(stack):
            kind, stmts, i, extra = fr
            new = {x for x in pend if x != "fall"}
            if "fall" in pend:
                f, ex = self.fx(tuple(stmts[i:]), strict, data, last, dyn)
                F |= f
                for x in ex:
                    if x == "fall" and kind == "loop":
                        f2, ex2 = self.fx(tuple(stmts), strict)
                        F |= f2
                        new |= {y for y in ex2 if y != "fall"}
                    else:
                        new.add(x)
            if kind == "loop":
                new = {("fall" if (x != "fall" and (x[1] is None or x[1] == extra)) else x) for x in new}
            pend = new
            if not pend:
                break
        return F

    # ------------------------------------------------------------------ configurations
    def init(self):
        data = cexpr.default_data(self.names, self.decls)
        return ((("seq", self.prog, 0, None),), None, tuple(sorted(data.items())), None)

    def finished(self, cfg):
        return cfg is not None and not cfg[0] and cfg[1] is None

    # ------------------------------------------------------------------ the step
    def run(self, cfg, c, nosym=False, probe=False, foreach_first=False, rend_done=False, each_outer_first=False):
        """process symbol c lazily -> dict(pre=[events], outcome, cfg)
        outcome: ("consumed",) ("fail",) ("term", code) ; with nosym: ("need",) ("end",) ("term", code)"""
        stack, ms, data, last = cfg
        stack = list(stack)
        data = dict(data)
        ev = []
        claimed = False
        decision = None      # (stack, len(ev), data, ms, last) at the first lookahead decision that passed the symbol on
        env = self.env

        def snap():
            return tuple(sorted(data.items()))

        def pack():
            return (tuple(stack), ms, snap(), last)

        def do_actions(acts, lastv):
            """run non-consuming statements (foreach each-actions); may raise Err / return terminal"""
            for a in acts:
                r = exec_action(a, lastv)
                if r is not None:
                    return r
            return None

        def exec_action(s, lastv):
            k = s[0]
            if k == "hook":
                ev.append(("hook", s[1], snap()))
            elif k == "set":
                d = self.decls[s[1]]
                e = s[2]
                if e[0] == "enum":
                    v = cexpr.enum_index(self.decls, s[1], e[1])
                else:
                    try:
                        v = cexpr.ev(e, env, data, lastv)[0]
                    except cexpr.CUB as x:
                        raise RefUB(str(x))
                data[s[1]] = cexpr.store(d, v)
                if s[1] in set(U.e_names(e)):
                    ev.append(("selfset", s[1]))
            elif k == "setstr":
                data[s[1]] = bytes(s[2])
            elif k == "appendc":
                d = self.decls[s[1]]
                try:
                    v = cexpr.ev(s[2], env, data, lastv)[0]
                except cexpr.CUB as x:
                    raise RefUB(str(x))
                if len(data[s[1]]) >= d["cap"]:
                    raise Err("outofspace")
                data[s[1]] = data[s[1]] + bytes([v & 0xff])
                ev.append(("append", s[1], v & 0xff))
            elif k == "delete":
                data[s[1]] = b""
            elif k == "finish":
                ev.append(("finish", s[1], snap()))
                return ("term", "FINISH_" + s[1] if s[1] else "DONE")
            elif k == "yield":
                ev.append(("yield", s[1], snap()))
            elif k == "if":
                for cnd, body in s[1]:
                    if truth(cnd, lastv):
                        return do_actions(body, lastv)
                if s[2] is not None:
                    return do_actions(s[2], lastv)
            else:
                raise ValueError("not an action: %r" % (s,))
            return None

        def truth(cnd, lastv):
            try:
                return cexpr.ev(cnd, env, data, lastv)[0] != 0
            except cexpr.CUB as x:
                raise RefUB(str(x))

        def each_char(cbyte):
            """each-character actions of the enclosing foreach blocks, innermost first (the order among nested foreach blocks is not
            specified by the reference: each_outer_first is the other reading)"""
            for fr in (stack if each_outer_first else reversed(stack)):
                if fr[0] == "foreach":
                    r = do_actions(fr[3], cbyte)
                    if r is not None:
                        return r
            return None

        guard = 0
        while True:
            guard += 1
            if guard > 400:
                raise RefDiverge("control flow goes round without consuming input")
            try:
                if not stack:
                    if nosym:
                        return dict(pre=ev, outcome=("end",), cfg=((), None, snap(), last))
                    if probe:
                        return dict(pre=ev, outcome=("noalt",), cfg=None)
                    if claimed or decision is None:
                        # a handler completed the program / only actions were left after the last consumed byte / it had already finished
                        return dict(pre=ev, outcome=("term", "DONE"), cfg=((), None, snap(), last), already=(guard == 1))
                    if decision is not None and rend_done:
                        # alternative reading: the program finished before this symbol (which stays unconsumed)
                        return dict(pre=ev, outcome=("term", "DONE"), cfg=((), None, snap(), last), rend=True)
                    if decision is not None:
                        st0, n0, d0, ms0, l0 = decision
                        stack[:] = list(st0)
                        del ev[n0:]
                        data.clear()
                        data.update(d0)
                        last = l0
                        decision = None
                    ms = None
                    raise Err("nomatch")    # nobody claims the symbol: mismatch at the deciding construct
                kind, stmts, i, extra = stack[-1]
                if i >= len(stmts):
                    stack.pop()
                    if kind == "loop":
                        stack.append(("loop", stmts, 0, extra))
                    continue
                s = stmts[i]
                k = s[0]

                def adv():
                    stack[-1] = (kind, stmts, i + 1, extra)

                # ---------------- non-consuming statements
                if k in ("hook", "set", "setstr", "appendc", "delete", "finish", "yield"):
                    adv() if k != "finish" else None
                    r = exec_action(s, last)
                    if r is not None:
                        if probe:
                            return dict(pre=ev, outcome=("noalt",), cfg=None)
                        return dict(pre=ev, outcome=r, cfg=None)
                    continue
                if k == "break":
                    label = s[1]
                    while stack:
                        fr = stack.pop()
                        if fr[0] == "loop" and (label is None or fr[3] == label):
                            break
                    else:
                        raise ValueError("break outside loop")
                    continue
                if k == "loop":
                    adv()
                    stack.append(("loop", tuple(s[2]), 0, s[1]))
                    continue
                if k == "try":
                    adv()
                    stack.append(("try", tuple(s[1]), 0, (s[2], tuple(s[3]))))
                    continue
                if k == "foreach":
                    adv()
                    stack.append(("foreach", tuple(s[1]), 0, tuple(s[2])))
                    continue
                if k == "if":
                    adv()
                    chosen = None
                    for cnd, body in s[1]:
                        if truth(cnd, last):
                            chosen = body
                            break
                    if chosen is None and s[2] is not None:
                        chosen = s[2]
                    if chosen:
                        stack.append(("seq", tuple(chosen), 0, None))
                    continue
                # ---------------- statements that need a symbol
                if nosym:
                    return dict(pre=ev, outcome=("need",), cfg=pack())
                if probe:
                    return dict(pre=ev, outcome=("noalt",), cfg=None)
                if k == "optional":
                    f, _ = self.first(tuple(s[1]))
                    adv()
                    if c in f:
                        if c in self.cont_first(stack, True, data, last):
                            raise RefAmbiguous("byte %r both enters an optional block and starts what follows it" % (c,))
                        stack.append(("seq", tuple(s[1]), 0, None))
                    else:
                        if decision is None and not claimed:
                            decision = (list(stack[:-1]) + [(kind, stmts, i, extra)], len(ev), dict(data), ms, last)
                    continue
                if k in ("match", "append"):
                    r0 = self.core(s[-1])
                    cur = ms[1] if ms is not None else r0
                    started = ms is not None
                    if self.live(r0, cur, c):
                        if D.nullable(cur) and started:
                            adv()
                            cf = self.cont_first(stack, True, data, last)
                            stack[-1] = (kind, stmts, i, extra)
                            if c in cf:
                                raise RefAmbiguous("byte %r both continues %s and starts what follows" % (c, U.m_text(s[-1])))
                        if k == "append":
                            d = self.decls[s[1]]
                            if foreach_first:
                                last0 = last
                                last = c if c != END else last
                                r = each_char(c if c != END else 255)
                                if r is not None:
                                    return dict(pre=ev, outcome=r, cfg=None)
                                if len(data[s[1]]) >= d["cap"]:
                                    last = last0
                            if len(data[s[1]]) >= d["cap"]:
                                ms = None
                                raise Err("outofspace")
                            data[s[1]] = data[s[1]] + bytes([c & 0xff])
                            ev.append(("append", s[1], c & 0xff))
                        last = c if c != END else last
                        q2 = D.deriv(cur, c)
                        if self.closed(r0, q2):
                            adv()
                            ms = None
                        else:
                            ms = ("m", q2)
                        if not (foreach_first and k == "append"):
                            r = each_char(c if c != END else 255)
                            if r is not None:
                                return dict(pre=ev, outcome=r, cfg=None)
                        return dict(pre=ev, outcome=("consumed",), cfg=pack())
                    if D.nullable(cur):
                        if decision is None and not claimed:
                            decision = (list(stack), len(ev), dict(data), ms, last)
                        adv()
                        ms = None
                        continue
                    ms = None
                    raise Err("nomatch")
                if k == "wait":
                    r0 = self.core(s[1])
                    cur = ms[1] if ms is not None else r0
                    dfa = self.dfa(r0)
                    if c == END and not self.live(r0, cur, c):
                        if D.nullable(cur) and ms is not None:
                            adv()
                            ms = None
                            continue
                        return dict(pre=ev, outcome=("fail",), cfg=None, incomplete=True)
                    if D.nullable(cur) and ms is not None and not self.live(r0, cur, c):
                        adv()
                        ms = None
                        continue
                    d = D.deriv(cur, c)
                    if dfa.dead(d):
                        d = D.deriv(r0, c)
                        if dfa.dead(d):
                            d = r0
                    last = c if c != END else last
                    if d is not r0 and d != r0 and self.closed(r0, d) and D.nullable(d):
                        adv()
                        ms = None
                    else:
                        ms = ("m", d)
                    r = each_char(c if c != END else 255)
                    if r is not None:
                        return dict(pre=ev, outcome=r, cfg=None)
                    return dict(pre=ev, outcome=("consumed",), cfg=pack())
                if k == "case":
                    greedy = s[1]
                    clauses = s[2]
                    pats, owner, prio = [], [], []
                    else_idx = None
                    for ci, (pr, ps, body) in enumerate(clauses):
                        for p in ps:
                            if p == "else":
                                else_idx = ci
                            else:
                                pats.append(self.core(p))
                                owner.append(ci)
                                prio.append(pr or 0)
                    if ms is None:
                        Q, anyc = tuple(pats), False
                    else:
                        Q, anyc = ms[1], ms[2]

                    def alive(Q):
                        return [j for j in range(len(Q)) if Q[j] is not None and self.live(pats[j], Q[j], c)]

                    def winner(Q):
                        nul = [j for j in range(len(Q)) if Q[j] is not None and D.nullable(Q[j])]
                        if not nul:
                            return None
                        if greedy:
                            top = max(prio[j] for j in nul)
                            cands = sorted(set(owner[j] for j in nul if prio[j] == top))
                        else:
                            cands = sorted(set(owner[j] for j in nul))
                        if len(cands) > 1:
                            raise RefAmbiguous("two case clauses match the same text")
                        return cands[0]

                    lv = alive(Q)
                    if lv:
                        if not greedy and anyc:
                            done = set(owner[j] for j in range(len(Q)) if Q[j] is not None and D.nullable(Q[j]))
                            if done and any(owner[j] not in done for j in lv):
                                raise RefAmbiguous("a case clause is complete while another clause can continue on byte %r" % (c,))
                        Q2 = tuple(D.deriv(Q[j], c) if j in lv else None for j in range(len(Q)))
                        last = c if c != END else last
                        if all(Q2[j] is None or self.closed(pats[j], Q2[j]) for j in range(len(Q2))):
                            w = winner(Q2)
                            adv()
                            ms = None
                            if w is not None and clauses[w][2]:
                                stack.append(("seq", tuple(clauses[w][2]), 0, None))
                        else:
                            ms = ("case", Q2, True)
                        r = each_char(c if c != END else 255)
                        if r is not None:
                            return dict(pre=ev, outcome=r, cfg=None)
                        return dict(pre=ev, outcome=("consumed",), cfg=pack())
                    w = winner(Q) if anyc else None
                    if w is not None:
                        if decision is None and not claimed:
                            decision = (list(stack), len(ev), dict(data), ms, last)
                        adv()
                        ms = None
                        if clauses[w][2]:
                            stack.append(("seq", tuple(clauses[w][2]), 0, None))
                        continue
                    ms = None
                    if else_idx is not None:
                        adv()
                        claimed = True
                        decision = None
                        if clauses[else_idx][2]:
                            stack.append(("seq", tuple(clauses[else_idx][2]), 0, None))
                        continue
                    raise Err("nomatch")
                raise NotImplementedError(s)
            except Err as e:
                ms = None
                if probe:
                    # eager alternative: a char-append that sat right after the consumed byte ran with that byte and overflowed;
                    # the handler then starts with that byte in hand
                    probe = False
                    if e.reason != "outofspace":
                        return dict(pre=ev, outcome=("noalt",), cfg=None)
                while stack:
                    fr = stack.pop()
                    if fr[0] == "try" and (fr[3][0] is None or e.reason in fr[3][0]):
                        stack.append(("seq", fr[3][1], 0, None))
                        claimed = True
                        decision = None
                        break
                else:
                    return dict(pre=ev, outcome=("fail",), cfg=None)
                if nosym:
                    # an out-of-space raised by a char-append while no symbol is in hand: the handler starts without one
                    claimed = False
                continue
