"""Program sources for the checks: corpus, universe slices, hand-written feature programs.

Every item is a dict(label, src, argv, ast) - ast is our own AST (None for corpus / text programs).
"""
import os
from . import universe as U
from .loader import corpus_files, file_args


def corpus():
    out = []
    for fn in corpus_files():
        src = open(fn).read()
        out.append(dict(label=os.path.basename(fn), src=src, argv=file_args(src), ast=None))
    return out


FEATURES = [
    # (label, argv, source) - one program per codegen feature / action kind / transition kind
    ("feat-cond-break", [], """out int{unsigned, size 1} n = 0; out str[4] t; hook h;
parser { loop outer { loop { t += /[a-c]/; n = [n + 1]; if n == 2 { break outer; } elif t[0] == 'b' { break; } else { h(); } } "x"; } "end"; h(); }"""),
    ("feat-yield-lexer", ["-fyield-support"], """yieldcode A, B, W; out str[4] t;
parser { loop { greedy case { /\\s+/ -> {yield W;} /[a-c]+/ -> {yield A;} prio 1 "ab" -> {yield B;} "(" -> { t += [40]; yield W; } } } }"""),
    ("feat-eof", ["-feof-support"], """out int m = 0; hook h; finishcode F;
parser { "a"; case { end -> { m = 1; h(); } "b" -> { m = 2; } } optional { "c"; } case { end -> { finish F; } else -> { wait "z"; } } }"""),
    ("feat-ranges", ["-O2", "--collapsed-range-length", "2"], """out int m = 0;
parser { case { /[a-c]/ -> { m = 1; } /[e-i]/ -> { m = 2; } /[k-l]/ -> { m = 3; } /[n-oq-sw]/ -> { m = 4; } /[\\d]/ -> { m = 5; } } /[^x-z]/; "!"; }"""),
    ("feat-ranges4", ["-O2"], """out int m = 0;
parser { case { /[a-d]/ -> { m = 1; } /[f-j]/ -> { m = 2; } /[l-n]/ -> { m = 3; } /[p-s]/ -> { m = 4; } } /[^t-z]/; "!"; }"""),
    ("feat-strings", [], """out str[3] s; out unterminated str[2] u; out int{unsigned, size 1} n = 0; out bool f = false; out enum{A,B,C} e; hook h;
parser { try { s += /a+/; u += "bc"; } catch (outofspace) { n = [s.len + u.len]; delete s; h(); } s = "x"; e = C; f = true; s += [n + 65]; if s.len > 1 && s[1] == 'C' { e = B; } wait "\\n"; h(); }"""),
    ("feat-try-nested", [], """out str[3] s; hook h; hook g; finishcode F;
parser { try { "a"; try { s += /b+/; "c"; } catch (nomatch) { h(); "d"; } "e"; } catch { g(); finish F; } "f"; }"""),
    ("feat-foreach", [], """out int{unsigned, size 2} k = 0; out int{unsigned, size 1} n = 0; hook h;
parser { foreach { /\\d+/; } do { k = [k * 10 + ($last - '0')]; n = [n + 1]; } ";"; if k > 100 { "big"; } elif n == 1 { finish; } else { k = 0; } h(); }"""),
    ("feat-finish-codes", [], """finishcode A, B; out int m = 0;
parser { case { "a" -> { finish A; } "b" -> { m = 1; finish B; } "c" -> { finish; } else -> { m = [m + 1]; } } "z"; }"""),
    ("feat-optional-chain", [], """hook h; hook g; out int{unsigned, size 1} n = 0;
parser { "a"; optional { "b"; h(); } optional { /c+/; "e"; n = [n + 1]; } g(); "d"; }"""),
    ("feat-casei-bin", [], """out str[8] t;
parser { "hello"i; t += "0a ff 00"b; b/61 [62-63]+ (00|ff)/; }"""),
    ("feat-yield-accepting", ["-fyield-support"], """yieldcode T, V; hook h; out int m = 0;
parser { case { "a" -> { yield T; } "c" -> { m = 1; } /d+/ -> { yield V; } } optional { "b"; h(); } optional { "e"; } }"""),
    ("feat-unterminated", [], """out unterminated str[4] tag = "ab"; out int n = 5; out unterminated str[2] u; out int{unsigned, size 1} z = 165; out str[3] s = "x"; out int{unsigned, size 1} y = 90;
parser { case { "1" -> { tag = "wxyz"; } "2" -> { tag = "q"; u = "hi"; } "3" -> { s = "ok"; u += "a"; } else -> { tag += /[a-c]+/; ";"; } } u += /./; "!"; }"""),
    ("feat-defaults-dyn", ["-fallocate-str-space-dynamic"], """out str[5] a = "abcd"; out str[3] b; out bool f = true; out enum{X,Y,Z} e; out int{size 2} k = -7; hook h;
parser { h(); b += /[xy]+/; ","; a = "z"; delete b; b += [k + 72]; e = Z; if f && e == Z { a += "!"; } h(); }"""),
    ("feat-bigstr", [], """out unterminated str[256] big; out int{unsigned, size 1} z = 165; out str[256] t256; out str[257] t257; out int{unsigned, size 2} k = 0; hook h;
parser { loop { case { "a" -> { big += [65]; t256 += [66]; t257 += [67]; } "b" -> { k = [big.len + t256.len + t257.len]; h(); } /c+/ -> { try { big += "x"; } catch (outofspace) { delete big; k = [k + 1]; } } } } }"""),
    ("feat-highbyte", [], """out str[4] t; out int m = 0; hook h;
parser { t += /./; if t[0] > 127 { m = 1; } elif t[0] == 65 { m = 2; } m = [m + t[0]]; h(); "!"; }"""),
    ("feat-word", ["-O2"], """out str[8] t; out int m = 0;
parser { t += /[0-9A-Za-z_]+/; " "; /[0-9A-Fa-f]+/; m = 1; ";"; /[\\-0-9.]+/; "!"; }"""),
    ("feat-yield-last", ["-fyield-support"], """yieldcode A, LAST; hook h;
parser { loop { case { "ab" -> { yield A; } "c" -> { h(); } ";" -> { break; } } } "end"; yield LAST; }"""),
    ("feat-regex-end", ["-feof-support"], """out int m = 0; hook h;
parser { "a"; h(); m = 1; /[bc]/; }"""),
    ("feat-lowercase", ["-fyield-support"], """out enum{aa,Bb,c_d} e; finishcode ok, Fail; yieldcode more; hook Hook_1; out int Out_1 = 0;
parser { "a"; e = aa; "b"; e = Bb; Hook_1(); case { "c" -> { if e == c_d { finish ok; } else { Out_1 = 1; yield more; } } "d" -> { e = c_d; finish Fail; } } "z"; }"""),
    ("feat-signed", [], """out int{signed, size 1} a = -1; out int{signed, size 2} b = 0; out int{size 8} c = 0; out int{unsigned, size 4} d = 0;
parser { foreach { /./ ; } do { a = [a - 100]; b = [b + a * 2]; d = [d - 1]; c = [c * 3 + d]; } }"""),
    # a loop left by a conditional break, directly followed by an append that can overflow (handler consumes)
    ("feat-break-append", [], """out str[2] s; out int{unsigned, size 1} n = 0; hook h;
parser { loop { try { loop { /[ab]/; n = [n + 1]; if n == 2 { break; } } s += [65]; n = 0; } catch (outofspace) { h(); delete s; "x"; } } }"""),
    ("feat-break-append-O3", ["-O3"], """out str[2] s; out int{unsigned, size 1} n = 0; hook h; hook g;
parser { loop { try { s += /[AB]/; loop { /[ab]/; n = [n + 1]; if n == 1 { break; } } s += [48 + n]; g(); ","; } catch (outofspace) { h(); /[^;]*/; ";"; s = ""; n = 0; } } }"""),
    # any-byte matches whose byte is observed ($last, hook argument) - the byte must be reloaded although the state ignores it
    ("feat-anybyte", [], """out int m = 0; out str[4] t; hook h;
parser { loop { "a"; /./; m = [$last]; h(); /[^b]/; h(); t += /./; ";"; delete t; } }"""),
    # foreach over yielding clauses with a char-append each-action that can overflow into a consuming handler
    ("feat-yield-foreach-append", ["-fyield-support"], """yieldcode LP, RP; out str[3] s; hook h;
parser { loop { try { foreach { loop { case { "(" -> { yield LP; } ")" -> { yield RP; } /[ab]/ -> {} ";" -> { break; } } } } do { s += [$last]; } h(); delete s; } catch (outofspace) { h(); delete s; /[xy]/; } } }"""),
    ("feat-yield-foreach-append-O3", ["-fyield-support", "-O3"], """yieldcode LP, RP, FULL; out str[3] s; hook h;
parser { loop { try { foreach { case { "(" -> { yield LP; } ")" -> { yield RP; } /[ab]/ -> {} "." -> { h(); s = ""; } } } do { s += [$last]; } } catch (outofspace) { /./; yield FULL; s = ""; } } }"""),
    # action-only conditional finish followed by more statements
    ("feat-cond-finish", [], """out int{unsigned, size 1} n = 0; finishcode F; hook h;
parser { loop { /[ab]/; n = [n + 1]; if n == 3 { finish F; } h(); "c"; if n == 2 && $last == 'c' { finish; } } }"""),
    # conditional append at the top of a loop body inside try/catch (outofspace)
    ("feat-cond-append", [], """out str[3] s; out int{unsigned, size 1} n = 0; hook h;
parser { "s"; loop { try { if n == 0 { s += [65]; } else { s += [66]; n = 0; } /[ab]/; if $last == 'b' { n = 1; } } catch (outofspace) { h(); "!"; delete s; } } }"""),
]


# actions that follow a yield in program order but sit on the next fall-through (loop-start actions, the statement after the case)
FEATURES += [
    ("feat-yield-loopstart", ["-fyield-support"], """out int x = 0; yieldcode W, S; hook h;
parser { loop { x = 0; case { /[a-z]+/ -> { x = 1; yield W; } " " -> { h(); } } } }"""),
    ("feat-yield-then-action", ["-fyield-support"], """out int{unsigned, size 1} n = 0; yieldcode W, S; hook h;
parser { loop { case { "(" -> { n = [n + 1]; yield S; n = [n + 2]; } /[a-z]/ -> { yield W; } " " -> { h(); } } n = [n * 2]; } }"""),
]
# an append that can overflow and a yield carried by the same clause (the overflow redirect must not move the position)
FEATURES += [
    ("feat-append-yield", ["-fyield-support"], """yieldcode WORD, FULL; out str[3] s; hook h;
parser { loop { try { case { /[a-z]/ -> { s += [65]; yield WORD; } " " -> { h(); } } } catch (outofspace) { yield FULL; delete s; } } }"""),
    ("feat-append-yield-silent", ["-fyield-support", "-O3"], """yieldcode WORD; out str[3] s; hook h;
parser { loop { try { case { /[a-z]/ -> { s += [$last]; yield WORD; } " " -> { h(); } } } catch (outofspace) { delete s; } } }"""),
    ("feat-append-match-yield", ["-fyield-support", "-O3"], """yieldcode GOT, FULL; out str[4] s; hook h;
parser { loop { try { s += /[a-c]/; yield GOT; } catch (outofspace) { h(); /./; "!"; delete s; } } }"""),
    # ... and handlers that leave the buffer full: every later word overflows again, each time consuming its byte
    ("feat-append-yield-full", ["-fyield-support"], """yieldcode WORD, OVER; out str[3] s;
parser { loop { try { case { /[a-z]/ -> { s += [65]; yield WORD; } " " -> {} } } catch (outofspace) { yield OVER; } } }"""),
    ("feat-append-yield-full-silent", ["-fyield-support"], """yieldcode WORD; out str[3] s;
parser { loop { try { case { /[a-z]/ -> { s += [65]; yield WORD; } " " -> {} } } catch (outofspace) { } } }"""),
    ("feat-yield-eof", ["-fyield-support", "-feof-support"], """yieldcode W, N, E; out int n = 0;
parser { loop { greedy case { /\\s+/ -> { yield E; } /[a-z]+/ -> { yield W; } /\\d+/ -> { n = [n + 1]; yield N; } "(" -> { yield E; } end -> { break; } } } n = 7; }"""),
]
# the only redirecting action of an action-only if/else sits in its else branch
FEATURES += [
    ("feat-else-break", [], """out int{unsigned, size 1} n = 0; out int m = 0; hook h;
parser { loop outer { case { "a" -> { if n == 0 { n = 1; } else { break outer; } } "b" -> { m = [m + 1]; } "q" -> { if m == 2 { break outer; } } } } "z"; h(); }"""),
    ("feat-else-append", [], """out int{unsigned, size 1} n = 0; out str[3] s; hook h;
parser { loop { try { /[abc]/; if $last == 'a' { n = 0; } else { s += [66]; } if $last == 'c' { s += [67]; } } catch (outofspace) { h(); delete s; "!"; } } }"""),
]
# an append among the start actions that overflows inside start(): its multi-state handler is reachable from nowhere else
FEATURES += [
    ("feat-start-overflow", [], """out str[2] foo = "a"; out int n = 0; hook h;
parser { try { foo += [66]; n = 1; "x"; } catch (outofspace) { "yz"; h(); "w"; n = 2; } "!"; }"""),
]
# a program ending in an action-less fall-through into its final state (empty else clause / empty catch block)
FEATURES += [
    ("feat-final-else", [], """out int m = 0; hook h;
parser { "a"; h(); case { "b" -> { m = 1; } else -> {} } }"""),
    ("feat-final-catch", [], """out int m = 0; hook h;
parser { "a"; h(); try { "bc"; m = 1; } catch {} }"""),
]
# string constants that contain C trigraph sequences and other characters with a meaning inside a C literal
FEATURES += [
    ("feat-trigraph", [], """out str[24] s = "??)a??!b??'"; out str[24] t; hook h;
parser { "a"; s = "x??(??=??/??<??>??-"; h(); "b"; t = "%d\\n??/"; s = "?" ; h(); "c"; t = "a??b"; }"""),
]
# a break / finish / overflowing append two and three action-only `if` levels deep (skip labels and redirects of nested conditionals)
FEATURES += [
    ("feat-deep-break", [], """out int{unsigned, size 1} n = 0; out int{unsigned, size 1} m = 0; hook h;
parser { loop outer { loop { /[ab]/; n = [n + 1]; if n > 1 { if $last == 'b' { if m == 0 { break; } else { break outer; } } else { m = 1; } } h(); } "c"; n = 0; } "z"; h(); }"""),
    ("feat-deep-finish-append", [], """out int{unsigned, size 1} n = 0; out str[3] s; finishcode F; hook h;
parser { loop { try { /[abc]/; n = [n + 1]; if n > 1 { if $last == 'b' { if s.len == 2 { finish F; } else { s += [66]; } } elif $last == 'c' { if n > 2 { s += [67]; } } } h(); } catch (outofspace) { h(); delete s; "!"; } } }"""),
]
# byte classes with one collapsible run and several isolated members (which tests survive range collapsing must not depend on set iteration order)
FEATURES += [
    ("feat-ranges-isolated", ["-O2"], """out str[8] t; out int m = 0; hook h;
parser { t += /[a-h_z]+/; "!"; case { /[0-4,.;]/ -> { m = 1; } /[A-F\\-+*]/ -> { m = 2; } /[x-z$%&]/ -> { m = 3; } } h(); /[^k-p#@]/; "?"; }"""),
]
# string constants whose C spelling is delicate: a control byte directly before a digit (octal escapes must not merge), a trailing backslash
FEATURES += [
    ("feat-string-consts", [], """out str[8] s = "\\t7"; out str[8] t; out unterminated str[4] u = "\\x011"; out int{unsigned, size 1} z = 165; hook h;
parser { "a"; s = "\\n12"; h(); "b"; t = "C:\\\\"; h(); "c"; t = "\\x015\\x1f7"; u = "\\0007"; s = "x\\\\"; h(); "d"; t = "\\\\"; s += [t[0]]; h(); }"""),
]
# an optional whose body starts with a loop that has start-of-iteration actions (the entry state is a copy of the loop head: shared action lists
# would run them twice once -O3 folds the loop-back edge in), and a byte class that spells out all 256 values (a range test with nothing left to test)
FEATURES += [
    ("feat-optional-loop-start", [], """out int{unsigned, size 1} n = 0; hook h1; hook h2;
parser { optional { loop { n = [n + 1]; h1(); case { "a" -> {} ";;" -> { break; } } } h2(); } "z"; }"""),
    ("feat-allbytes", ["-O2"], """out int m = 0; hook h;
parser { b/[00-ff]{2}/; m = 1; h(); b/[00-7f 80-ff]/; m = 2; h(); b/[01-ff]/; "!"; }"""),
]
# programs the compiler must reject in code generation (used by the checks that look at emitted text only)
CODEGEN_REJECTED = [
    # an action-only conditional among the start actions that mentions $last: there is no byte yet
    ("feat-start-last-cond", [], """out int n = 0;
parser { if $last == 5 { n = 1; } elif n == 0 { n = 2; } "a"; }"""),
]
# machines with exactly 255 / 256 / 257 states (the width of the state member; the parked state of a failed end() is one more)
for _n in (253, 254, 255):
    FEATURES.append(("feat-states-%d" % (_n + 2), ["-feof-support"], 'out int m = 0; hook h;\nparser { "%s"; m = 1; h(); }' % ("ab" * (_n // 2) + "c" * (_n % 2))))


# fewer than 256 reachable states but more than 256 states in all at -O0 (unreachable ones keep their numbers: the state member must hold every index)
FEATURES.append(("feat-states-O0-unreachable", ["-O0"], 'out int m = 0; hook h;\nparser { "%s"; m = 1; h(); optional { "x"; } try { "y"; } catch { "z"; } case { "p" -> {} else -> {} } }' % ("ab" * 123 + "c")))
FEATURE_WITNESSES_EXTRA = {"feat-states-O0-unreachable": [("ab" * 123 + "c" + "x" + "y" + "p").encode(), ("ab" * 123 + "c" + "q" + "z").encode()]}
# more than 256 states of which fewer than 256 are not condition points (the width of the state member counts all of them)
_ifs = " ".join('if n == %d { "p"; } else { "q"; }' % i for i in range(50))
FEATURES.append(("feat-many-condition-points", [], 'out int{unsigned, size 1} n = 0; hook h;\nparser { "%s"; %s h(); }' % ("ab" * 20, _ifs)))
# explicit long inputs for programs whose interesting states lie deeper than the bounded strings reach (cut at every single position by C02)
FEATURE_WITNESSES = {
    "feat-many-condition-points": [("ab" * 20 + "p" + "q" * 49).encode()],
    "feat-states-O0-unreachable": [("ab" * 123 + "c" + "x" + "y" + "p").encode(), ("ab" * 123 + "c" + "q" + "z").encode()],
    "feat-states-255": [("ab" * 126 + "c").encode()], "feat-states-256": [("ab" * 127).encode()], "feat-states-257": [("ab" * 127 + "c").encode()],
}


def features():
    return [dict(label=l, src=s, argv=list(a), ast=None) for l, a, s in FEATURES]


def from_ast(p, label=None, extra_argv=()):
    return dict(label=label or "U", src=U.source(p), argv=U.needs_flags(p) + list(extra_argv), ast=p)


def universe_slice(level, step=1, offset=0, limit=None):
    out = []
    for i, p in enumerate(U.enumerate_programs(level)):
        if i % step != offset % step:
            continue
        out.append(from_ast(p, "U%d#%d" % (level, i)))
        if limit and len(out) >= limit:
            break
    return out


def nested_slice(step=1, offset=0):
    """programs of the nested-block universe (universe.U_block2), every step-th"""
    out = []
    for i, p in enumerate(U.enumerate_nested()):
        if i % step == offset % step:
            out.append(from_ast(p, "N#%d" % i))
    return out
