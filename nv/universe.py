"""Our own AST for nmfu programs, printers to nmfu source, conversion of match expressions to core regexes,
byte-class partition from the *source*, and the bounded program enumerators.

The compiler only ever sees the printed text; every oracle runs on this AST.
"""
import itertools
from . import deriv as D

END = D.END

# =====================================================================================================
# regex surface AST
#   ("atom", text, frozenset(bytes))        a leaf with its own spelling
#   ("seq", (r, ...)) ("alt", (r, ...)) ("grp", r)
#   ("q", r, kind)   kind: "*" "+" "?" (n,) (n, m) (n, None)
# =====================================================================================================

WORD = frozenset(b"abcdefghijklmnopqrstuvwxyzABCDEFGHIJKLMNOPQRSTUVWXYZ0123456789_")
DIGIT = frozenset(b"0123456789")
SPACE = frozenset([0x20, 0x09, 0x0a, 0x0d, 0x0b, 0x0c])
ALL = D.ALLBYTES


def atom(text, bs):
    return ("atom", text, frozenset(bs))


def rng(a, b):
    return frozenset(range(a, b + 1))


RX_ATOMS = {
    "a": atom("a", b"a"), "b": atom("b", b"b"), "c": atom("c", b"c"), ".": atom(".", ALL),
    "[ab]": atom("[ab]", b"ab"), "[^a]": atom("[^a]", ALL - set(b"a")), "[^ab]": atom("[^ab]", ALL - set(b"ab")),
    "[a-c]": atom("[a-c]", b"abc"), "\\d": atom("\\d", DIGIT), "\\D": atom("\\D", ALL - DIGIT),
    "\\w": atom("\\w", WORD), "\\W": atom("\\W", ALL - WORD), "\\s": atom("\\s", SPACE), "\\S": atom("\\S", ALL - SPACE),
    "\\n": atom("\\n", b"\n"), "\\t": atom("\\t", b"\t"), "\\r": atom("\\r", b"\r"), "\\.": atom("\\.", b"."), "\\ ": atom("\\ ", b" "),
    "\\*": atom("\\*", b"*"), "\\\\": atom("\\\\", b"\\"), "\\/": atom("\\/", b"/"), "\\[": atom("\\[", b"["),
    "[^\\w]": atom("[^\\w]", ALL - WORD), "[\\d_]": atom("[\\d_]", DIGIT | set(b"_")), "[^a\\d]": atom("[^a\\d]", ALL - DIGIT - set(b"a")),
    "[b-da]": atom("[b-da]", b"abcd"), "0": atom("0", b"0"), "[0-3]": atom("[0-3]", b"0123"),
    "[^\\s]": atom("[^\\s]", ALL - SPACE), "$": atom("$", b"$"),
    "[\\W\\D]": atom("[\\W\\D]", (ALL - WORD) | (ALL - DIGIT)), "[\\S\\D]": atom("[\\S\\D]", (ALL - SPACE) | (ALL - DIGIT)),
    "[^\\W\\D]": atom("[^\\W\\D]", ALL - ((ALL - WORD) | (ALL - DIGIT))), "[\\W\\S]": atom("[\\W\\S]", (ALL - WORD) | (ALL - SPACE)),
    "[a\\W]": atom("[a\\W]", (ALL - WORD) | set(b"a")), "[\\w\\s]": atom("[\\w\\s]", WORD | SPACE), "[^\\W\\s]": atom("[^\\W\\s]", ALL - ((ALL - WORD) | SPACE)),
    "[\\D\\d]": atom("[\\D\\d]", ALL), "[^\\D]": atom("[^\\D]", DIGIT),
}


def rx_text(r, ctx="alt"):
    """print with minimal parentheses. ctx: 'alt' (top / inside group), 'seq' (inside a sequence), 'q' (operand of a quantifier)"""
    t = r[0]
    if t == "atom":
        return r[1]
    if t == "grp":
        return "(" + rx_text(r[1], "alt") + ")"
    if t == "seq":
        s = "".join(rx_text(x, "seq") for x in r[1])
        return "(" + s + ")" if ctx == "q" else s
    if t == "alt":
        s = "|".join(rx_text(x, "alt") for x in r[1])
        return "(" + s + ")" if ctx in ("seq", "q") else s
    if t == "q":
        k = r[2]
        inner = rx_text(r[1], "q")
        if r[1][0] == "q":
            inner = "(" + inner + ")"
        if k in ("*", "+", "?"):
            return inner + k
        if len(k) == 1:
            return inner + "{%d}" % k[0]
        if k[1] is None:
            return inner + "{%d,}" % k[0]
        return inner + "{%d,%d}" % k
    raise ValueError(r)


def rx_core(r):
    t = r[0]
    if t == "atom":
        return D.sset(r[2]) if r[2] else D.NUL
    if t == "grp":
        return rx_core(r[1])
    if t == "seq":
        return D.seq(*[rx_core(x) for x in r[1]])
    if t == "alt":
        return D.alts(rx_core(x) for x in r[1])
    if t == "q":
        a = rx_core(r[1])
        k = r[2]
        if k == "*":
            return D.star(a)
        if k == "+":
            return D.plus(a)
        if k == "?":
            return D.opt(a)
        if len(k) == 1:
            return D.rep(a, k[0], k[0])
        return D.rep(a, k[0], k[1])
    raise ValueError(r)


def brx_text(r, ctx="alt"):
    """binary regex spelling of a surface regex whose atoms are ("atom", text, set) built by batom()"""
    return rx_text(r, ctx)


def batom_byte(b):
    return atom("%02x" % b, [b])


def batom_set(bs, inverted=False):
    txt = "[" + ("^" if inverted else "") + " ".join("%02x" % b for b in bs) + "]"
    return atom(txt.replace("[^ ", "[^"), (ALL - set(bs)) if inverted else frozenset(bs))


def batom_range(a, b):
    return atom("[%02x-%02x]" % (a, b), rng(a, b))


# =====================================================================================================
# match expressions
#   ("lit", bytes) ("liti", bytes) ("bin", bytes) ("re", surface) ("bre", surface) ("cat", (m, ...)) ("end",)
# =====================================================================================================

def esc_str(bs):
    out = []
    for b in bs:
        c = chr(b)
        if c == '"':
            out.append('\\"')
        elif c == "\\":
            out.append("\\\\")
        elif 32 <= b < 127:
            out.append(c)
        elif c == "\n":
            out.append("\\n")
        elif c == "\t":
            out.append("\\t")
        elif c == "\r":
            out.append("\\r")
        else:
            out.append("\\x%02x" % b)
    return '"' + "".join(out) + '"'


def m_text(m):
    t = m[0]
    if t == "lit":
        return esc_str(m[1])
    if t == "liti":
        return esc_str(m[1]) + "i"
    if t == "bin":
        return '"' + " ".join("%02x" % b for b in m[1]) + '"b'
    if t == "re":
        return "/" + rx_text(m[1]) + "/"
    if t == "bre":
        return "b/" + rx_text(m[1]) + "/"
    if t == "cat":
        return "(" + " ".join(m_text(x) for x in m[1]) + ")"
    if t == "end":
        return "end"
    if t == "mparam":
        return m[1]
    raise ValueError(m)


def m_core(m):
    t = m[0]
    if t in ("lit", "bin"):
        return D.lit(m[1])
    if t == "liti":
        return D.liti(m[1])
    if t in ("re", "bre"):
        return rx_core(m[1])
    if t == "cat":
        return D.seq(*[m_core(x) for x in m[1]])
    if t == "end":
        return D.sset([END])
    raise ValueError(m)


def lit(s):
    return ("lit", s.encode("latin-1") if isinstance(s, str) else bytes(s))


def re_(*parts):
    """re_('a', ('q', 'b', '+')) convenience: strings are looked up in RX_ATOMS"""
    def cv(p):
        if isinstance(p, str):
            return RX_ATOMS[p]
        return p
    ps = [cv(p) for p in parts]
    return ("re", ps[0] if len(ps) == 1 else ("seq", tuple(ps)))


def q(r, k):
    return ("q", RX_ATOMS[r] if isinstance(r, str) else r, k)


# =====================================================================================================
# expressions:  ("num", v) ("char", byte) ("bool", 0/1) ("enum", name) ("var", name) ("len", name) ("idx", name, e) ("last",)
#               ("bin", op, a, b) ("not", e) ("neg", e)
# printed with minimal parentheses under C precedence (the grammar's layering)
# =====================================================================================================

PREC = {"||": 1, "&&": 2, "|": 3, "^": 4, "&": 5, "==": 6, "!=": 6, "<": 6, ">": 6, "<=": 6, ">=": 6,
        "<<": 7, ">>": 7, "+": 8, "-": 8, "*": 9, "/": 9, "%": 9}
NONASSOC = {"==", "!=", "<", ">", "<=", ">=", "<<", ">>"}


def e_prec(e):
    t = e[0]
    if t == "bin":
        return PREC[e[1]]
    if t in ("not", "neg"):
        return 10
    if t == "num" and e[1] < 0:
        return 11  # a negative literal token is an atom in the grammar (SIGNED_INT)
    return 11


def e_text(e, need=0):
    t = e[0]
    if t == "num":
        s = str(e[1]) if len(e) < 3 else e[2]
    elif t == "char":
        s = char_const(e[1])
    elif t == "bool":
        s = "true" if e[1] else "false"
    elif t in ("enum", "var", "ident"):
        s = e[1]
    elif t == "len":
        s = e[1] + ".len"
    elif t == "idx":
        s = "%s[%s]" % (e[1], e_text(e[2]))
    elif t == "last":
        s = "$last"
    elif t == "not":
        s = "!" + e_text(e[1], 11)
    elif t == "neg":
        s = "-" + e_text(e[1], 11)
    elif t == "bin":
        op = e[1]
        p = PREC[op]
        if op in NONASSOC:
            s = "%s %s %s" % (e_text(e[2], p + 1), op, e_text(e[3], p + 1))
        else:
            s = "%s %s %s" % (e_text(e[2], p), op, e_text(e[3], p + 1))
    else:
        raise ValueError(e)
    if e_prec(e) < need:
        return "(" + s + ")"
    return s


def char_const(b):
    c = chr(b)
    if c == "'":
        return "'\\''"
    if c == "\\":
        return "'\\\\'"
    if c == "\n":
        return "'\\n'"
    if c == "\t":
        return "'\\t'"
    if c == "\r":
        return "'\\r'"
    if 32 <= b < 127:
        return "'%s'" % c
    raise ValueError("no char constant spelling for byte %d" % b)


# =====================================================================================================
# statements
# =====================================================================================================

ENV = {
    "s": "out str[3] s;", "u": "out unterminated str[2] u;", "r": "out raw{uint16_t} r;",
    "n": "out int{unsigned, size 1} n = 0;", "m": "out int m = 0;", "f": "out bool f = false;",
    "e": "out enum{A,B,C} e;", "t": "out str[4] t;", "k": "out int{signed, size 2} k = 0;",
}
HOOKS = ("h", "g")
FINISH = ("F", "G")
YIELD = ("Y", "Z")
ORDER = ["s", "u", "r", "t", "n", "m", "k", "f", "e"]


def s_text(st, ind="  "):
    k = st[0]
    if k == "match":
        return ind + m_text(st[1]) + ";"
    if k == "append":
        return ind + "%s += %s;" % (st[1], m_text(st[2]))
    if k == "wait":
        return ind + "wait %s;" % m_text(st[1])
    if k == "hook":
        return ind + st[1] + "();"
    if k == "set":
        e = st[2]
        if e[0] in ("num", "char", "bool", "enum", "ident"):
            return ind + "%s = %s;" % (st[1], e_text(e))
        return ind + "%s = [%s];" % (st[1], e_text(e))
    if k == "setstr":
        return ind + "%s = %s;" % (st[1], esc_str(st[2]))
    if k == "appendc":
        return ind + "%s += [%s];" % (st[1], e_text(st[2]))
    if k == "delete":
        return ind + "delete %s;" % st[1]
    if k == "finish":
        return ind + ("finish %s;" % st[1] if st[1] else "finish;")
    if k == "yield":
        return ind + "yield %s;" % st[1]
    if k == "break":
        return ind + ("break %s;" % st[1] if st[1] else "break;")
    if k == "loop":
        return ind + "loop %s{\n%s\n%s}" % ((st[1] + " ") if st[1] else "", b_text(st[2], ind + "  "), ind)
    if k == "optional":
        return ind + "optional {\n%s\n%s}" % (b_text(st[1], ind + "  "), ind)
    if k == "try":
        opts = "" if st[2] is None else " (" + ", ".join(st[2]) + ")"
        h = b_text(st[3], ind + "  ")
        return ind + "try {\n%s\n%s} catch%s {%s%s}" % (b_text(st[1], ind + "  "), ind, opts, ("\n" + h + "\n" + ind) if st[3] else "", "")
    if k == "foreach":
        return ind + "foreach {\n%s\n%s} do {\n%s\n%s}" % (b_text(st[1], ind + "  "), ind, b_text(st[2], ind + "  "), ind)
    if k == "if":
        out = []
        for i, (c, body) in enumerate(st[1]):
            out.append("%s %s {\n%s\n%s}" % ("if" if i == 0 else "elif", e_text(c), b_text(body, ind + "  "), ind))
        if st[2] is not None:
            out.append("else {\n%s\n%s}" % (b_text(st[2], ind + "  "), ind))
        return ind + (" ".join(out))
    if k == "case":
        lines = []
        for prio, pats, body in st[2]:
            ps = ", ".join("else" if p == "else" else m_text(p) for p in pats)
            bd = ("\n" + b_text(body, ind + "    ") + "\n" + ind + "  ") if body else ""
            pr = ("prio %d " % prio) if prio is not None else ""
            lines.append("%s  %s%s -> {%s}" % (ind, pr, ps, bd))
        return ind + ("greedy case {\n" if st[1] else "case {\n") + "\n".join(lines) + "\n" + ind + "}"
    if k == "call":
        return ind + "%s(%s);" % (st[1], ", ".join(a if isinstance(a, str) else arg_text(a) for a in st[2]))
    raise ValueError(st)


def arg_text(a):
    if a[0] in ("lit", "liti", "re", "bre", "cat", "end", "mparam") or (a[0] == "bin" and isinstance(a[1], (bytes, bytearray))):
        return m_text(a)
    if a[0] in ("num", "char", "bool", "enum", "ident"):
        return e_text(a)
    return "[" + e_text(a) + "]"


def b_text(body, ind):
    return "\n".join(s_text(s, ind) for s in body)


def walk(stmts):
    for st in stmts:
        yield st
        k = st[0]
        if k == "loop":
            yield from walk(st[2])
        elif k == "optional":
            yield from walk(st[1])
        elif k == "try":
            yield from walk(st[1])
            yield from walk(st[3])
        elif k == "foreach":
            yield from walk(st[1])
            yield from walk(st[2])
        elif k == "if":
            for c, b in st[1]:
                yield from walk(b)
            if st[2] is not None:
                yield from walk(st[2])
        elif k == "case":
            for prio, pats, body in st[2]:
                yield from walk(body)


def e_names(e):
    t = e[0]
    if t in ("var", "len"):
        yield e[1]
    elif t == "idx":
        yield e[1]
        yield from e_names(e[2])
    elif t == "bin":
        yield from e_names(e[2])
        yield from e_names(e[3])
    elif t in ("not", "neg"):
        yield from e_names(e[1])


def used(stmts):
    outs, hooks, fin, yld = set(), set(), set(), set()
    for st in walk(stmts):
        k = st[0]
        if k in ("append", "set", "setstr", "appendc", "delete"):
            outs.add(st[1])
        if k in ("set", "appendc"):
            outs.update(e_names(st[2]))
        if k == "hook":
            hooks.add(st[1])
        if k == "finish" and st[1]:
            fin.add(st[1])
        if k == "yield":
            yld.add(st[1])
        if k == "if":
            for c, b in st[1]:
                outs.update(e_names(c))
    return outs, hooks, fin, yld


def source(stmts, extra_decls=(), env=None):
    env = env or ENV
    outs, hooks, fin, yld = used(stmts)
    lines = [env[o] for o in ORDER if o in outs and o in env]
    lines += ["hook %s;" % h for h in HOOKS if h in hooks]
    if fin & set(FINISH):
        lines.append("finishcode %s;" % ", ".join(x for x in FINISH if x in fin))
    if yld & set(YIELD):
        lines.append("yieldcode %s;" % ", ".join(x for x in YIELD if x in yld))
    lines += list(extra_decls)
    lines.append("parser {")
    lines.append(b_text(stmts, "  "))
    lines.append("}")
    return "\n".join(lines) + "\n"


def needs_flags(stmts):
    fl = []
    for st in walk(stmts):
        if st[0] == "yield" and "-fyield-support" not in fl:
            fl.append("-fyield-support")
        ms = []
        if st[0] in ("match", "wait"):
            ms = [st[1]]
        elif st[0] == "append":
            ms = [st[2]]
        elif st[0] == "case":
            ms = [p for _, pats, _ in st[2] for p in pats if p != "else"]
        for m in ms:
            if has_end(m) and "-feof-support" not in fl:
                fl.append("-feof-support")
    return fl


def has_end(m):
    if m[0] == "end":
        return True
    if m[0] == "cat":
        return any(has_end(x) for x in m[1])
    return False


# =====================================================================================================
# byte classes from the source
# =====================================================================================================

def m_sets(m):
    return D.symbols_of(m_core(m))


def e_bytes(e):
    """byte values an expression compares $last / string bytes against"""
    t = e[0]
    if t == "char":
        yield e[1]
    elif t == "num" and 0 <= e[1] < 256:
        yield e[1]
    elif t == "bin":
        yield from e_bytes(e[2])
        yield from e_bytes(e[3])
    elif t in ("not", "neg"):
        yield from e_bytes(e[1])
    elif t == "idx":
        yield from e_bytes(e[2])


def source_sets(stmts):
    sets = set()
    for st in walk(stmts):
        k = st[0]
        ms = []
        if k in ("match", "wait"):
            ms = [st[1]]
        elif k == "append":
            ms = [st[2]]
        elif k == "case":
            ms = [p for _, pats, _ in st[2] for p in pats if p != "else"]
        for m in ms:
            sets |= m_sets(m)
        es = []
        if k in ("set", "appendc"):
            es = [st[2]]
        elif k == "if":
            es = [c for c, _ in st[1]]
        for e in es:
            for b in e_bytes(e):
                sets.add(frozenset([b]))
    return sets


def reps_of(stmts, with_end=False):
    sets = source_sets(stmts)
    blocks = D.partition([s - {END} for s in sets])
    r = D.representatives(blocks)
    return r + ([END] if with_end else [])


# =====================================================================================================
# menus and enumerators
# =====================================================================================================

A_, B_, C_ = RX_ATOMS["a"], RX_ATOMS["b"], RX_ATOMS["c"]

M_MENU = [
    lit("a"), lit("ab"), ("liti", b"b"), ("re", q("a", "+")), ("re", ("seq", (q("a", "*"), B_))),
    ("re", ("seq", (RX_ATOMS["[ab]"], q("c", "?")))), ("re", RX_ATOMS["[^a]"]), ("re", RX_ATOMS["."]),
    ("cat", (lit("a"), ("re", q("b", "+")))), ("bin", b"ab"), ("bre", ("seq", (batom_byte(0x61), q(batom_byte(0x62), "+")))),
]
M_SMALL = [lit("a"), ("re", q("a", "+")), lit("b"), ("re", RX_ATOMS["[ab]"]), lit("ab")]

LAST_B = ("bin", "==", ("last",), ("char", ord("b")))

ACTIONS = [
    ("hook", "h"), ("hook", "g"), ("set", "n", ("num", 1)), ("set", "n", ("bin", "+", ("var", "n"), ("num", 1))),
    ("appendc", "s", ("num", 65)), ("setstr", "s", b"xy"), ("setstr", "s", b""), ("delete", "s"),
    ("set", "f", ("bool", 1)), ("set", "e", ("enum", "B")), ("finish", None), ("finish", "F"),
]
ACT_SMALL = [("hook", "h"), ("set", "n", ("num", 1)), ("set", "n", ("bin", "+", ("var", "n"), ("num", 1))), ("finish", "F"), ("hook", "g")]

CONDS = [
    ("bin", "==", ("var", "n"), ("num", 1)),
    ("bin", "&&", ("bin", ">", ("var", "n"), ("num", 0)), ("var", "f")),
    ("bin", ">", ("len", "s"), ("num", 1)),
    ("bin", "==", ("idx", "s", ("num", 0)), ("char", ord("a"))),
]


def match_stmts(menu, appends=True, waits=False):
    out = [("match", m) for m in menu]
    if appends:
        out += [("append", "s", m) for m in menu[:5]]
    if waits:
        out += [("wait", m) for m in menu[:3]]
    return out


def seqs(menu, maxlen, minlen=1):
    for n in range(minlen, maxlen + 1):
        yield from itertools.product(menu, repeat=n)


def leaf_menu(full=True):
    if full:
        return match_stmts(M_MENU) + ACTIONS + [("wait", lit("ab")), ("append", "u", ("re", q("a", "+"))), ("append", "r", lit("ab"))]
    return match_stmts(M_SMALL, appends=False) + [("append", "s", ("re", q("a", "+")))] + ACT_SMALL


def blocks_over(bodies, handlers, small):
    """single-block statements over given bodies (tuples of statements)"""
    for body in bodies:
        yield ("optional", body)
        yield ("loop", None, body + (("break", None),))
        yield ("foreach", body, (("hook", "h"),))
        yield ("foreach", body, (("set", "n", ("bin", "+", ("var", "n"), ("num", 1))),))
    for body in bodies:
        for hb in handlers:
            for opts in (None, ("nomatch",), ("outofspace",)):
                yield ("try", body, opts, hb)


def U_leaf(maxlen=2, full=True):
    """all leaf statement sequences"""
    menu = leaf_menu(full)
    for p in seqs(menu, maxlen):
        yield tuple(p)


def U_block1(small_body=2):
    """one block with bodies of length <= small_body over the reduced menu, <= 1 statement before and after"""
    small = leaf_menu(False)
    bodies = [b for b in seqs(small, small_body)]
    handlers = [()] + [(x,) for x in small[:8]]
    pre_opts = [(), (("match", lit("c")),), (("hook", "g"),), (("append", "s", ("re", q("c", "+"))),)]
    post_opts = [()] + [(x,) for x in small[:6]] + [(("hook", "h"),)]
    for blk in blocks_over(bodies, handlers, small):
        for pre in pre_opts:
            for post in post_opts:
                yield pre + (blk,) + post
    # case and if blocks
    for p in U_case_if(small):
        yield p


def U_case_if(small):
    pats = [lit("a"), lit("ab"), lit("b"), ("re", q("a", "+")), ("re", RX_ATOMS["[ab]"]), ("liti", b"c")]
    bodies = [(), (("hook", "h"),), (("match", lit("c")),), (("finish", "F"),), (("set", "n", ("num", 1)),)]
    for p1, p2 in itertools.permutations(pats, 2):
        for b1 in bodies:
            for b2 in bodies[:3]:
                for els in (None, (), (("hook", "g"),)):
                    cl = [(None, (p1,), b1), (None, (p2,), b2)]
                    if els is not None:
                        cl.append((None, ("else",), els))
                    for post in ((), (("hook", "g"),), (("match", lit("c")),)):
                        yield (("case", False, tuple(cl)),) + post
    for c in CONDS:
        for b1 in [(x,) for x in small[:7]]:
            for b2 in [None] + [(x,) for x in small[:5]]:
                for pre in ((("append", "s", ("re", q("a", "+"))),), (("set", "n", ("num", 1)), ("match", lit("a")))):
                    for post in ((), (("match", lit("c")),), (("hook", "h"),)):
                        yield pre + (("if", ((c, b1),), b2),) + post


def U_block2():
    """one block nested in another: every inner block kind (optional, loop with a plain / conditional exit, foreach, try with every reason list,
    case with / without else, if with / without else) over a one-statement body, with <= 1 statement before and after it inside every outer block kind,
    and <= 1 statement after the outer block.  `n = 1; "k";` in front makes the conditions true and gives every block a consumed byte before it."""
    AB = ("re", RX_ATOMS["[ab]"])
    n1 = ("set", "n", ("bin", "+", ("var", "n"), ("num", 1)))
    T = [("match", lit("a")), ("match", ("re", q("a", "+"))), ("append", "s", AB), ("hook", "h"), n1, ("match", lit("b"))]
    Y = atom("y", b"y")

    def inners():
        for t in T:
            yield ("optional", (t,))
            yield ("loop", None, (t, ("break", None)))
            yield ("loop", None, (t, ("optional", (("match", lit(";;")), ("break", None)))))     # (a one-byte exit pattern is refused as ambiguous)
            yield ("foreach", (t,), (("hook", "g"),))
            for hb in ((), (("hook", "g"),), (("match", lit("x")),)):
                for opts in (None, ("nomatch",), ("outofspace",)):
                    yield ("try", (t,), opts, hb)
            yield ("case", False, ((None, (lit("a"),), (t,)), (None, (lit("b"),), ()), (None, ("else",), ())))
            yield ("case", False, ((None, (lit("x"),), (t,)), (None, (("re", q(Y, "+")),), (("hook", "g"),))))
            yield ("if", ((CONDS[0], (t,)),), None)
            yield ("if", ((CONDS[0], (t,)),), (("match", lit("x")),))

    def outers(body):
        yield ("optional", body)
        yield ("loop", None, body + (("break", None),))
        yield ("loop", None, body + (("optional", (("match", lit("!!")), ("break", None))),))
        yield ("foreach", body, (n1,))
        yield ("try", body, None, (("hook", "g"),))
        yield ("try", body, ("nomatch",), (("match", lit("z")),))
        yield ("try", body, ("outofspace",), (("delete", "s"),))
        yield ("case", False, ((None, (lit("p"),), body), (None, (lit("q"),), (("hook", "g"),))))
        yield ("case", False, ((None, (lit("p"),), body), (None, ("else",), ())))
        yield ("if", ((CONDS[0], body),), None)
        yield ("if", ((CONDS[0], (("match", lit("w")),)),), body)

    for inner in inners():
        for pre_in in ((), (("match", lit("c")),)):
            for post_in in ((), (("match", lit("d")),), (("hook", "g"),)):
                body = pre_in + (inner,) + post_in
                for outer in outers(body):
                    for post in ((), (("match", lit("e")),), (("hook", "h"),)):
                        yield (("set", "n", ("num", 1)), ("match", lit("k")), outer) + post


def doc_error_optional(stmts):
    """the reference: "It is an error to have anything that does not match as the first statement in an optional-statement".  nmfu does not
    diagnose all of these; what such an optional does (is a try whose handler covers the mismatch "entered" by a byte its body cannot take? a case
    with an else clause?) is not defined by the procedural reading, so C01 does not judge programs that contain one."""
    def first_ok(body):
        if not body:
            return False
        st = body[0]
        k = st[0]
        if k in ("match", "append", "wait"):
            return True
        if k == "case":
            return not any("else" in pats for _, pats, _ in st[2])
        if k in ("loop",):
            return first_ok(st[2])
        if k == "foreach":
            return first_ok(st[1])
        return False
    return any(st[0] == "optional" and not first_ok(st[1]) for st in walk(tuple(stmts)))


def enumerate_programs(level):
    """level 1: leaf sequences <= 2 (full menu); level 2: + one block; deterministic canonical order"""
    yield from U_leaf(2, True)
    if level >= 2:
        yield from U_block1(2)
    if level >= 3:
        yield from U_leaf(3, False)


def enumerate_nested():
    yield from U_block2()


# hand-written ASTs for shapes the generator does not reach (conditional / named breaks, nesting, yields)
def handwritten():
    n1 = ("set", "n", ("bin", "+", ("var", "n"), ("num", 1)))
    AB = ("re", RX_ATOMS["[ab]"])
    P = []
    P.append((("loop", None, (("match", AB), n1, ("if", ((("bin", "==", ("var", "n"), ("num", 2)), (("break", None),)),), None))), ("hook", "h"), ("match", lit("c"))))
    P.append((("loop", None, (("match", AB), n1, ("if", ((("bin", "==", ("var", "n"), ("num", 2)), (("break", None),)),), None))), ("set", "m", ("num", 7)), ("hook", "h"), ("match", lit("c")), ("hook", "g")))
    P.append((("loop", "outer", (("loop", None, (("append", "s", AB), ("if", ((LAST_B, (("break", "outer"),)),), (("hook", "h"),)))), ("match", lit("x")))), ("hook", "g"), ("match", lit("c"))))
    P.append((("loop", "outer", (("match", lit("a")), ("loop", None, (("match", lit("b")), n1, ("if", ((("bin", ">", ("var", "n"), ("num", 2)), (("break", "outer"),)), (("bin", "==", ("var", "n"), ("num", 1)), (("break", None),))), None))), ("hook", "h"))), ("finish", "F")))
    P.append((("foreach", (("match", ("re", q("\\d", "+"))),), (("set", "k", ("bin", "+", ("bin", "*", ("var", "k"), ("num", 10)), ("bin", "-", ("last",), ("char", 48)))), n1)), ("match", lit(";")),
              ("if", ((("bin", ">", ("var", "k"), ("num", 100)), (("match", lit("big")),)), (("bin", "==", ("var", "n"), ("num", 1)), (("finish", None),))), (("set", "k", ("num", 0)),)), ("hook", "h")))
    P.append((("loop", None, (("try", (("append", "s", ("re", q("a", "+"))), ("match", lit("b"))), ("outofspace",), (("delete", "s"), ("hook", "h"))), ("match", lit("c")), n1)),))
    P.append((("try", (("match", lit("a")), ("try", (("append", "s", ("re", q("b", "+"))), ("match", lit("c"))), ("nomatch",), (("hook", "h"), ("match", lit("d")))), ("match", lit("e"))), None, (("hook", "g"), ("finish", "F"))), ("match", lit("f"))))
    P.append((("append", "s", lit("cc")), ("try", (("match", lit("a")), ("append", "s", lit("b"))), ("outofspace",), (("hook", "h"),)), ("appendc", "s", ("num", 65)), ("hook", "g")))
    P.append((("try", (("append", "s", lit("cc")), ("try", (("match", lit("a")), ("append", "s", lit("b"))), ("outofspace",), (("hook", "h"),)), ("append", "s", lit("d")), ("hook", "g")), ("outofspace",), (("finish", "F"),)), ("finish", "G")))
    P.append((("match", lit("a")), ("optional", (("match", lit("b")), ("hook", "h"))), ("optional", (("match", ("re", q("c", "+"))), n1)), ("hook", "g"), ("match", lit("d"))))
    P.append((("loop", None, (("case", False, ((None, (lit("a"),), (("yield", "Y"),)), (None, (lit("bc"),), (n1, ("yield", "Z"))), (None, ("else",), (("wait", lit("a")),)))),)),))
    P.append((("loop", None, (("append", "s", AB), ("yield", "Y"), ("hook", "h"), ("optional", (("match", lit("c")), ("yield", "Z"))))),))
    P.append((("match", lit("a")), ("case", False, ((None, (lit("b"),), (("set", "m", ("last",)), ("hook", "h"))), (None, (("re", q("c", "+")),), (("hook", "g"),)), (None, ("else",), ()))), ("match", lit("d")), ("hook", "h")))
    P.append((("foreach", (("loop", None, (("match", AB), ("optional", (("match", lit("c")), ("break", None))))),), (("hook", "h"),)), ("match", lit("d"))))
    P.append((("if", ((("bin", "==", ("var", "n"), ("num", 0)), (("match", lit("a")), n1)),), (("match", lit("b")),)), ("if", ((("bin", "==", ("var", "n"), ("num", 1)), (("hook", "h"),)),), (("hook", "g"),)), ("match", lit("c"))))
    P.append((("loop", None, (("match", lit("a")), n1, ("if", ((("bin", "==", ("bin", "%", ("var", "n"), ("num", 3)), ("num", 0)), (("hook", "h"),)), (("bin", "==", ("var", "n"), ("num", 5)), (("break", None),))), None))), ("match", lit("b"))))
    P.append((("setstr", "s", b"xy"), ("match", lit("a")), ("delete", "s"), ("append", "s", ("re", q("b", "+"))), ("hook", "h"), ("match", lit("c"))))
    P.append((("try", (("loop", None, (("appendc", "s", ("num", 65)), ("match", lit("a")))),), ("outofspace",), (("hook", "h"), ("wait", lit("z")))), ("finish", "F")))
    P.append((("case", False, ((None, (lit("S"),), (("set", "n", ("num", 1)),)), (None, (lit("M"),), (("set", "n", ("num", 0)),)))),
              ("loop", "recs", (("loop", "chars", (("match", AB), ("if", ((("bin", "==", ("var", "n"), ("num", 1)), (("break", "chars"),)),), None))), ("set", "m", ("bin", "+", ("var", "m"), ("num", 1)))))))
    P.append((("loop", "recs", (("loop", "chars", (("append", "s", AB), ("if", ((("bin", ">", ("len", "s"), ("num", 1)), (("break", "chars"),)),), None))), ("hook", "h"), ("delete", "s"))),))
    DG = ("re", RX_ATOMS["[0-3]"])
    P.append((("loop", None, (("match", ("re", RX_ATOMS["."])), ("if", ((("bin", "==", ("var", "n"), ("num", 1)), (("yield", "Y"),)),), None))),))
    P.append((("set", "n", ("num", 1)), ("loop", None, (("match", AB), ("if", ((("bin", "==", ("var", "n"), ("num", 1)), (("yield", "Y"),)),), (("hook", "h"),)), ("set", "n", ("num", 0))))))
    P.append((("match", lit("k")), ("optional", (("loop", None, (("match", DG), ("yield", "Y"))),))))
    P.append((("match", lit("k")), ("optional", (("loop", None, (("match", DG), ("yield", "Y"), ("optional", (("match", lit(";")), ("break", None))))),)), ("match", lit("z")), ("yield", "Z")))
    P.append((("loop", None, (("match", AB), ("if", ((("bin", "==", ("var", "n"), ("num", 0)), (("set", "n", ("num", 1)), ("hook", "h"))),), (("yield", "Y"), ("set", "n", ("num", 0)))))),))
    # foreach over bodies with control flow of their own: the each-actions run once per byte the body reads, never on the non-consuming moves
    P.append((("foreach", (("loop", None, (("case", False, ((None, (("re", RX_ATOMS["[0-3]"]),), ()), (None, (lit(";"),), (("break", None),)))),)),), (n1,)), ("match", lit("d")), ("hook", "h")))
    P.append((("foreach", (("try", (("match", lit("ab")),), None, (("match", lit("c")),)),), (n1,)), ("match", lit("d")), ("hook", "h")))
    P.append((("foreach", (("match", AB), ("if", ((("bin", "==", ("var", "m"), ("num", 0)), (("match", lit("c")),)),), (("match", lit("d")),))), (n1,)), ("match", lit("d")), ("hook", "h")))
    P.append((("foreach", (("match", AB), ("optional", (("match", lit("c")),)), ("loop", None, (("match", lit("a")), ("optional", (("match", lit(";")), ("break", None)))))), (n1, ("hook", "g"))), ("match", lit("d")), ("hook", "h")))
    # an action-only conditional that changes what its own condition reads, directly after an open-ended match (must be scheduled once, or rejected)
    eq0 = ("bin", "==", ("var", "n"), ("num", 0))
    P.append((("match", ("re", q("a", "+"))), ("if", ((eq0, (("set", "n", ("num", 1)),)),), (("set", "n", ("num", 2)),)), ("match", lit("b")), ("hook", "h")))
    P.append((("loop", None, (("match", ("re", q("[ab]", "+"))), ("if", ((eq0, (("set", "n", ("num", 1)),)),), (("set", "n", ("num", 0)),)), ("match", lit(";")), ("hook", "h"))),))
    P.append((("append", "s", ("re", q("a", "+"))), ("if", ((("bin", "==", ("len", "s"), ("num", 1)), (("delete", "s"),)),), None), ("match", lit("b")), ("hook", "g")))
    # a matched byte that is appended and then yields; on overflow the handler gets exactly that byte (also at -O3, where both sit on one transition)
    t1 = ("try", (("append", "s", ("re", RX_ATOMS["[a-c]"])), ("yield", "Y")), ("outofspace",), (("hook", "h"), ("delete", "s"), ("match", ("re", RX_ATOMS["."])), ("match", lit("!"))))
    t2 = ("try", (("match", AB), ("appendc", "s", ("last",)), ("yield", "Y"), ("hook", "g")), ("outofspace",), (("yield", "Z"), ("delete", "s"), ("match", lit("c"))))
    P.append((("loop", None, (t1,)),))
    P.append((("loop", None, (t2,)),))
    # greedy cases: priorities between action-only, empty and consuming bodies that tie on the same last byte
    m1, m2, m3 = ("set", "m", ("num", 1)), ("set", "m", ("num", 2)), ("set", "m", ("num", 3))
    g0 = len(P)
    P.append((("case", True, ((2, (lit("ab"),), (m1,)), (1, (re_("a", "[ab]"),), (m2, ("match", lit("c")))))), ("hook", "h"), ("match", lit("d"))))
    P.append((("case", True, ((1, (lit("ab"),), (m1,)), (2, (re_("a", "[ab]"),), (m2, ("match", lit("c")))))), ("hook", "h"), ("match", lit("d"))))
    P.append((("case", True, ((3, (lit("ab"),), ()), (2, (re_("a", "[ab]"),), (m2, ("hook", "g"))), (1, (re_("[ab]", "b"),), (m3, ("match", lit("c")))))), ("hook", "h"), ("match", lit("d"))))
    P.append((("loop", None, (("case", True, ((2, (lit("ab"), lit("bb")), (m1,)), (1, (re_("[ab]", "b"),), (m2, ("match", lit("c")))), (None, (lit("c"),), (("break", None),)))), ("hook", "h"))), ("match", lit("d"))))
    P.append((("case", True, ((3, (lit("aa"),), (m2,)), (2, (re_("a", "[ab]"),), (m1, ("match", lit("c")))), (None, ("else",), (m3,)))), ("hook", "h"), ("match", lit("d"))))
    P.append((("case", True, ((1, (lit("aa"),), (m2,)), (2, (re_("a", "[ab]"),), (m1, ("match", lit("c")))), (3, (lit("b"),), ()))), ("hook", "h"), ("match", lit("d"))))
    # a loop around a greedy case with a clause that is a proper prefix of another one
    P.append((("loop", None, (("case", True, ((None, (lit("a"),), (m1,)), (None, (lit("abc"),), (m2,)))),)),))
    P.append((("loop", None, (("case", True, ((None, (lit("a"),), (m1,)), (None, (lit("abc"),), (m2,)), (None, (lit("d"),), (("break", None),)))), ("hook", "h"))), ("hook", "g"), ("match", lit("c"))))
    # ... and the same with the first observation only after the next match (a hook right after the case constrains scheduling)
    for k in range(g0, len(P)):
        prog = P[k]
        if prog[0][0] == "case" and prog[1:] == (("hook", "h"), ("match", lit("d"))):
            P.append((prog[0], ("match", lit("d")), ("hook", "h")))
    return P
