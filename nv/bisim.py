"""Bisimulation of two abstract machines on event streams (C05, C13, C20).

Both machines are stepped on the same symbol; each step yields a stream of observable events with a
consumption marker.  With slack (C05) either side may be ahead by events that sit between two consumed
bytes (the overhang never contains a consumption marker) and a hook's argument may differ only when the
two machines emitted it in different steps.  Without slack (C13, C20) the per-step streams must be equal.
"""
from collections import deque
from .am import AM, UB, Spin, END
from .loader import N

OBSERVABLE = ("hook", "append", "yield", "finish", "break", "C")


def uses_last(am):
    def expr_has(e):
        return any(isinstance(c, N.LastCharIntegerExpr) for c in e.all_children())

    def act_has(a):
        for s in a.all_subactions():
            if isinstance(s, N.SetTo) and expr_has(s.value_expr):
                return True
            if isinstance(s, N.AppendCharTo) and expr_has(s.append_value):
                return True
            if isinstance(s, N.ConditionalAction):
                for c in s.conditions:
                    if isinstance(c, N.IntegerCondition) and expr_has(c.expr):
                        return True
        return False
    for st in am.states:
        for t in st.transitions:
            if any(act_has(a) for a in t.actions):
                return True
    return False


def machine_sets(am):
    sets = set()
    for st in am.states:
        if isinstance(st, N.DFConditionPoint):
            continue
        for t in st.transitions:
            s = frozenset(ord(v) for v in t.on_values if isinstance(v, str))
            if s:
                sets.add(s)
    return sets


def reps_for(ams, small=16):
    from . import deriv as D
    sets = set()
    for a in ams:
        sets |= machine_sets(a)
    blocks = D.partition(sets)
    last = any(uses_last(a) for a in ams)
    out = []
    for b in blocks:
        if last and len(b) <= small:
            out.extend(sorted(b))
        else:
            out.append(min(b))
            if max(b) != min(b):
                out.append(max(b))
    return sorted(set(out))


def step_sym(am, cfg, sym, stepno, max_yields=64):
    """feed one symbol until it is consumed or the parse ends (re-invoking after yields).
    -> (final code, [(event_without_arg, arg, stepno)])"""
    evs = []
    if sym == END:
        # end() may yield as well (a token still pending at end-of-input): the caller calls it again until it gives a final code
        ov = 0
        for _ in range(16):
            code, ev = am.end(cfg)
            ov += am.overrides_in_step
            evs += _conv(ev, stepno)
            if not code.startswith("YIELD"):
                return code, evs
        raise Spin("end() yields for ever", am.state_index(cfg), ov > 0)
    ov = 0
    for _ in range(max_yields):
        code, adv, ev = am.feed_byte(cfg, sym)
        ov += am.overrides_in_step
        evs += _conv(ev, stepno)
        if code.startswith("YIELD"):
            if adv:
                return "OK", evs
            continue
        if code == "OK*":
            return "OK*", evs
        return code, evs
    raise Spin("yields for ever without consuming", am.state_index(cfg), ov > 0)


def _conv(ev, stepno):
    out = []
    for e in ev:
        k = e[0]
        if k == "hook":
            out.append((("hook", e[1], e[3]), e[2], stepno))
        elif k in ("append", "break", "C"):
            out.append((e, None, stepno))
        elif k in ("yield", "finish"):
            out.append((e, None, stepno))
    return out


def start_stream(am):
    cfg, code, ev = am.start()
    return cfg, code, _conv(ev, 0)


class Result:
    def __init__(self, status, why=None, path=None, states=0, trans=0, witnesses=None, shapes=None):
        self.status, self.why, self.path, self.states, self.trans = status, why, path, states, trans
        self.witnesses = witnesses or []
        self.shapes = shapes or set()


def bisim(A, B, reps, slack=True, max_states=3000, with_end=None, collect_witnesses=0):
    """-> Result(status in ok|capped|diff|spin)"""
    ca, codea, sa = start_stream(A)
    cb, codeb, sb = start_stream(B)
    if codea != codeb:
        return Result("diff", "start() returns %s vs %s" % (codea, codeb), b"")
    if [x[0] for x in sa] != [x[0] for x in sb]:
        return Result("diff", "start() events differ", b"")
    if codea != "OK":
        return Result("ok", states=1, trans=1)
    if with_end is None:
        with_end = A.eof and B.eof
    syms = list(reps) + ([END] if with_end else [])
    init = (A.key(ca), B.key(cb), (), ())
    seen = {init: b""}
    front = deque([init])
    nst = ntr = nspin = 0
    wit = []
    shapes = set()
    stepno = 0
    while front:
        st = front.popleft()
        nst += 1
        ka, kb, la, lb = st
        path = seen[st]
        if collect_witnesses and len(wit) < collect_witnesses:
            wit.append(path)
        for c in syms:
            ntr += 1
            stepno += 1
            cfa = A.mkcfg(ka[0], dict(ka[1])) if ka[0] is not None else None
            cfb = B.mkcfg(kb[0], dict(kb[1])) if kb[0] is not None else None
            p2 = path + (bytes([c]) if c != END else b"")
            tag = p2 if c != END else (p2, "END")
            spa = spb = None
            try:
                coda, ea = step_sym(A, cfa, c, stepno) if cfa is not None else ("TERMINATED", [])
            except UB:
                continue
            except Spin as e:
                spa = e
            try:
                codb, eb = step_sym(B, cfb, c, stepno) if cfb is not None else ("TERMINATED", [])
            except UB:
                continue
            except Spin as e:
                spb = e
            if spa or spb:
                if spa and spb:
                    nspin += 1      # both diverge here: equivalent (the divergence itself is C04's finding)
                    continue
                return Result("diff", "machine %s never returns (%s) while the other does" % ("A" if spa else "B", spa or spb), tag, nst, ntr)
            na = "OK" if coda == "OK*" else coda
            nb = "OK" if codb == "OK*" else codb
            if na not in ("OK", "FAIL", "TERMINATED"):
                ea = ea + [(("result", na), None, stepno)]
            if nb not in ("OK", "FAIL", "TERMINATED"):
                eb = eb + [(("result", nb), None, stepno)]
            SA = list(la) + ea
            SB = list(lb) + eb
            shapes.add((coda, len(ea) > 1))
            if not slack:
                if [(x[0], x[1]) for x in SA] != [(x[0], x[1]) for x in SB]:
                    return Result("diff", "event streams differ: %s vs %s" % (brief(SA), brief(SB)), tag, nst, ntr)
                ra = rb = []
            else:
                m = min(len(SA), len(SB))
                for xa, xb in zip(SA[:m], SB[:m]):
                    if xa[0] != xb[0]:
                        return Result("diff", "event streams differ: %s vs %s" % (brief(SA), brief(SB)), tag, nst, ntr)
                    if xa[2] == xb[2] and xa[1] != xb[1]:
                        return Result("diff", "hook argument differs within the same step: %s vs %s" % (brief(SA), brief(SB)), tag, nst, ntr)
                ra, rb = SA[m:], SB[m:]
                if any(x[0][0] == "C" for x in ra + rb):
                    return Result("diff", "consumption points differ: %s vs %s" % (brief(SA), brief(SB)), tag, nst, ntr)
            da = cfa["data"] if cfa is not None else dict(ka[1])
            db = cfb["data"] if cfb is not None else dict(kb[1])
            ta = na not in ("OK",)
            tb = nb not in ("OK",)
            if ta and tb:
                # both finished (now or earlier)
                fa = na if na != "TERMINATED" else None
                fb = nb if nb != "TERMINATED" else None
                if "FAIL" in (na, nb):
                    if na != nb:
                        return Result("diff", "result codes differ: %s vs %s" % (coda, codb), tag, nst, ntr)
                    continue
                if ra or rb:
                    return Result("diff", "results / events differ at the end: %s vs %s" % (brief(SA), brief(SB)), tag, nst, ntr)
                if da != db:
                    return Result("diff", "final outputs differ: %r vs %r" % (da, db), tag, nst, ntr)
                continue
            if ta != tb:
                # one side finished, the other returned OK: only DONE/finish may be postponed, and only to the following call (slack mode)
                fin = na if ta else nb
                if not slack or fin in ("FAIL", "TERMINATED"):
                    return Result("diff", "result codes differ: %s vs %s" % (coda, codb), tag, nst, ntr)
                if c == END:
                    return Result("diff", "end() results differ: %s vs %s" % (coda, codb), tag, nst, ntr)
                ka2 = (None, tuple(sorted(da.items()))) if ta else A.key(cfa)
                kb2 = (None, tuple(sorted(db.items()))) if tb else B.key(cfb)
                key = (ka2, kb2, tuple((x[0], x[1], -1) for x in ra), tuple((x[0], x[1], -2) for x in rb))
                if key not in seen:
                    seen[key] = p2
                    front.append(key)
                continue
            if c == END:
                continue
            # leads keep (event, arg) but a fresh step number is irrelevant later: mark as old (-1)
            key = (A.key(cfa), B.key(cfb), tuple((x[0], x[1], -1) for x in ra), tuple((x[0], x[1], -2) for x in rb))
            if key not in seen:
                seen[key] = p2
                front.append(key)
        if nst >= max_states:
            return Result("capped", None, None, nst, ntr, wit, shapes)
    return Result("ok", None, None, nst, ntr, wit, shapes)


def brief(S):
    out = []
    for x in S[-6:]:
        e = x[0]
        if e[0] == "hook":
            out.append("hook %s(%s) %s" % (e[1], x[1], dict(e[2])))
        else:
            out.append(" ".join(map(str, e)))
    return "[" + "; ".join(out) + "]"
