"""Emit + generated shim + generic op-interpreter driver -> executable, run in a sacrificial child process.

The executable reads a binary op script on stdin and writes a binary record stream on stdout.  Death by
signal, sanitizer abort or timeout is a reportable outcome of the program under test.
"""
import os
import shutil
import struct
import subprocess
import tempfile

from .loader import N

T = N.OutputStorageType
SCRATCH = os.environ.get("NV_SCRATCH") or ("/dev/shm" if os.path.isdir("/dev/shm") else tempfile.gettempdir())

DRIVER = r'''
/* ---- generic driver (same text for every program) ---- */
#include <stdio.h>
static unsigned char *OUTB; static size_t OUTN, OUTCAP; static int FLUSH_EACH;
static void outb(const void *p, size_t n){
  if (!n) return;
  if (OUTN + n > OUTCAP){ OUTCAP = (OUTCAP + n) * 2 + 4096; OUTB = realloc(OUTB, OUTCAP); }
  memcpy(OUTB + OUTN, p, n); OUTN += n;
}
static void out8(unsigned v){ unsigned char c = (unsigned char)v; outb(&c, 1); }
static void out32(int v){ outb(&v, 4); }
static void out64(long long v){ outb(&v, 8); }
static void flushout(void){ if (OUTN){ fwrite(OUTB, 1, OUTN, stdout); fflush(stdout); OUTN = 0; } }
static const unsigned char *CUR_BASE; static const uint8_t **CUR_PP; static int CUR_OFF0;
static PSTATE_T *ST;
static void snap(void);
static int NORM, NOOFF; static void snapn(void);
static void hook_record(int idx, uint8_t inval){
  out8('H'); out8(idx); out8(inval);
  out32(NOOFF ? 0 : (CUR_PP ? (int)(*CUR_PP - CUR_BASE) + CUR_OFF0 : -1));
  if (NORM) snapn(); else snap();
  if (FLUSH_EACH) flushout();
}
static int inv(void);
static void shim_prezero(void);
static void shim_reset_wr(void);
static void exhaust(int digest, int L, int nr, const unsigned char *reps, int do_end);
static void witness(const unsigned char *str, int n, int do_end);
/* ---- exhaustive chunk-schedule exploration inside C ---- */
static long NFEED, NSCHED, NSTR, NDIFF, NINV, NLIVE; static unsigned GMASK;
static int ptrs_null(void);
static int CUTPOS = -1, CUTALL = 0;     /* long inputs: one cut after byte CUTPOS / a cut after every byte (positions beyond the 31 bits of a mask) */
static int iscut(unsigned mask, int k){ if (CUTALL) return 1; if (CUTPOS >= 0) return k == CUTPOS; return k < 31 && (mask & (1u << k)); }
static int POISON = 0;                  /* what the state struct holds before start() is called (op 'P'): start() must not rely on zeroed memory */
static void run_one(const unsigned char *s, int n, unsigned mask, int do_end){
  shim_release(); memset(ST, POISON, sizeof(PSTATE_T)); if (POISON) shim_prezero(); shim_reset_wr(); install_hooks();
  CUR_PP = NULL; int r = PSTART(ST); install_hooks(); out8('S'); out8(r);
  int a = 0, term = (r != 0);
  while (!term && a < n){
    int b = a + 1; while (b < n && !iscut(mask, b - 1)) b++;
    unsigned char *buf = malloc(b - a); memcpy(buf, s + a, b - a);
    const uint8_t *p = buf; int guard = 0;
    for (;;){
      CUR_BASE = buf; CUR_OFF0 = a; NFEED++;
      int cur;
#if INDIRECT
      CUR_PP = &p; r = PFEED(&p, buf + (b - a), ST); CUR_PP = NULL; cur = a + (int)(p - buf);
#else
      r = PFEED(p, buf + (b - a), ST); cur = -1;
#endif
      { int iv = inv(); if (iv){ out8('V'); out8(iv); NINV++; } }
#if INDIRECT
      if (r == 0 && p != buf + (b - a)){ out8('V'); out8(201); NINV++; }   /* OK without consuming the whole chunk */
      if (p < buf || p > buf + (b - a)){ out8('V'); out8(204); NINV++; }    /* pointer left the chunk */
#endif
      if (r == 1){  /* FAIL must be absorbing: same call again, and end(), still FAIL with the pointer unmoved */
        const uint8_t *p2 = p; int r2;
#if INDIRECT
        if (p2 < buf + (b - a)){ r2 = PFEED(&p2, buf + (b - a), ST); if (r2 != 1 || p2 != p){ out8('V'); out8(202); NINV++; } }
#else
        r2 = PFEED(p2, buf + (b - a), ST); if (r2 != 1){ out8('V'); out8(202); NINV++; }
#endif
#if EOFS
        r2 = PEND(ST); if (r2 != 1){ out8('V'); out8(203); NINV++; }
#endif
      }
#if ZEROLEN
      if (r == 0){   /* an empty chunk placed at the very end of the (exactly sized) buffer: must be a no-op returning OK, and must not read *end */
        const uint8_t *pe = buf + (b - a); int rz; NFEED++;
#if INDIRECT
        CUR_PP = &pe; rz = PFEED(&pe, buf + (b - a), ST); CUR_PP = NULL; if (rz != 0 || pe != buf + (b - a)){ out8('V'); out8(206); NINV++; }
#else
        rz = PFEED(pe, buf + (b - a), ST); if (rz != 0){ out8('V'); out8(206); NINV++; }
#endif
        { int iv = inv(); if (iv){ out8('V'); out8(iv); NINV++; } }
      }
#endif
      if (r == 0) break;
      if (r >= FIRST_YIELD){
        out8('Y'); out8(r); out32(NOOFF ? 0 : cur);
        if (++guard > 4 * (b - a) + 8){ out8('L'); NLIVE++; term = 1; break; }   /* yields for ever without getting through the chunk */
        /* the documented driver loop re-invokes feed after EVERY yield with the pointer left as-is, also when the chunk is used up */
        continue;
      }
      out8('T'); out8(r); out32(NOOFF ? 0 : cur); term = 1; break;
    }
    free(buf); a = b;
  }
#if EOFS
  if (!term && do_end){
    /* end() may yield as well (a token still pending at end-of-input); the caller calls it again until it gives a final code */
    int eguard = 0;
    for (;;){
      CUR_PP = NULL; r = PEND(ST); out8('E'); out8(r); { int iv = inv(); if (iv){ out8('V'); out8(iv); NINV++; } }
      if (r < FIRST_YIELD) break;
      if (++eguard > 12){ out8('L'); NLIVE++; break; }
    }
  }
#endif
  out8('N'); out32(0); snapn();
  shim_free();                                /* the parser's own free function (when it has one) */
  if (!ptrs_null()){ out8('V'); out8(205); NINV++; }
}
static unsigned long long fnv(const unsigned char *p, size_t n){ unsigned long long h = 1469598103934665603ULL; for (size_t i = 0; i < n; i++){ h ^= p[i]; h *= 1099511628211ULL; } return h; }
static void exhaust(int digest, int L, int nr, const unsigned char *reps, int do_end){
  unsigned char s[16]; int idx[16];
  unsigned char *save = OUTB; size_t saven = OUTN, savecap = OUTCAP;
  unsigned char *refb = NULL; size_t refn = 0, refcap = 0;
  NORM = 1;
  NFEED = NSCHED = NSTR = NDIFF = NINV = NLIVE = 0;
  unsigned char *res = NULL; size_t resn = 0, rescap = 0;
  for (int n = 0; n <= L; n++){
    for (int i = 0; i < n; i++) idx[i] = 0;
    for (;;){
      for (int i = 0; i < n; i++) s[i] = reps[idx[i]];
      NSTR++;
      /* reference: one chunk */
      OUTB = refb; OUTN = 0; OUTCAP = refcap; run_one(s, n, digest ? GMASK : 0, do_end); refb = OUTB; refn = OUTN; refcap = OUTCAP; NSCHED++;
      if (digest){
        unsigned long long h = fnv(refb, refn);
        if (resn + 8 > rescap){ rescap = rescap * 2 + 4096; res = realloc(res, rescap); }
        memcpy(res + resn, &h, 8); resn += 8;
      } else {
        unsigned nmask = n > 1 ? (1u << (n - 1)) : 1;
        for (unsigned mask = 1; mask < nmask; mask++){
          OUTB = NULL; OUTN = 0; OUTCAP = 0; run_one(s, n, mask, do_end); NSCHED++;
          if (OUTN != refn || memcmp(OUTB, refb, refn)){
            NDIFF++;
            if (NDIFF <= 3){
              unsigned char *tb = OUTB; size_t tn = OUTN;
              OUTB = res; OUTN = resn; OUTCAP = rescap;
              out8('D'); out8(n); outb(s, n); out32((int)mask); out32((int)refn); outb(refb, refn); out32((int)tn); outb(tb, tn);
              res = OUTB; resn = OUTN; rescap = OUTCAP;
              OUTB = tb;
            }
          }
          free(OUTB);
        }
      }
      int k = n - 1; while (k >= 0 && ++idx[k] == nr){ idx[k] = 0; k--; }
      if (k < 0) break;
    }
  }
  NORM = 0; NOOFF = 0;
  OUTB = save; OUTN = saven; OUTCAP = savecap;
  out8(digest ? 'G' : 'X'); out64(NSTR); out64(NSCHED); out64(NFEED); out64(NDIFF); out64(NINV); out64(NLIVE);
  out32((int)resn); outb(res, resn);
  free(res); free(refb);
}
static void witness(const unsigned char *str, int n, int do_end){
  /* one explicit (longer) input: one chunk vs every single cut point vs all-ones */
  unsigned char *save = OUTB; size_t saven = OUTN, savecap = OUTCAP;
  NORM = 1; long nd = 0, ns = 0; unsigned badmask = 0;
  OUTB = NULL; OUTN = 0; OUTCAP = 0; run_one(str, n, 0, do_end); unsigned char *refb = OUTB; size_t refn = OUTN; ns++;
  for (int k = 0; k <= n - 1 && n > 1; k++){
    unsigned mask = (k < 31) ? (1u << k) : 0x80000000u;
    if (k == n - 1){ CUTALL = 1; mask = 0x7fffffffu; } else CUTPOS = k;
    OUTB = NULL; OUTN = 0; OUTCAP = 0; run_one(str, n, mask, do_end); ns++;
    CUTALL = 0; CUTPOS = -1;
    if (OUTN != refn || memcmp(OUTB, refb, refn)){ if (!nd) badmask = (k == n - 1) ? 0x7fffffffu : (unsigned)k; nd++; }
    free(OUTB);
  }
  NORM = 0; free(refb);
  OUTB = save; OUTN = saven; OUTCAP = savecap;
  out8('W'); out64(ns); out64(nd); out32((int)badmask);
}
static unsigned char *IN; static size_t INN, INP;
static unsigned rd8(void){ return IN[INP++]; }
static int rd32(void){ int v; memcpy(&v, IN + INP, 4); INP += 4; return v; }
static long long rd64(void){ long long v; memcpy(&v, IN + INP, 8); INP += 8; return v; }
int main(int argc, char **argv){
  size_t cap = 1 << 16; IN = malloc(cap);
  for (;;){ if (INN == cap){ cap *= 2; IN = realloc(IN, cap); } size_t r = fread(IN + INN, 1, cap - INN, stdin); if (!r) break; INN += r; }
  FLUSH_EACH = getenv("DRV_FLUSH") != NULL;
  ST = malloc(sizeof(PSTATE_T)); memset(ST, 0, sizeof(PSTATE_T)); install_hooks();
  while (INP < INN){
    unsigned op = rd8();
    switch (op){
    case 'Z': shim_release(); memset(ST, 0, sizeof(PSTATE_T)); install_hooks(); break;
    case 'P': POISON = rd8(); break;
    case 'S': { CUR_PP = NULL; int r = PSTART(ST); install_hooks(); out8('S'); out8(r); } break;
    case 'T': ST->state = rd32(); break;
    case 'I': { unsigned i = rd8(); long long v = rd64(); shim_set_int(i, v); } break;
    case 'B': { unsigned i = rd8(); int n = rd32(); shim_set_buf(i, IN + INP, n); if (n > 0) INP += n; } break;   /* n < 0: the NULL representation of an empty heap string */
    case 'F': {
      int n = rd32(); int off0 = rd32();
      unsigned char *buf = malloc(n ? n : 1); memcpy(buf, IN + INP, n); INP += n;
      const uint8_t *p = buf; int r;
      CUR_BASE = buf; CUR_OFF0 = off0;
#if INDIRECT
      CUR_PP = &p; r = PFEED(&p, buf + n, ST); CUR_PP = NULL;
      out8('F'); out8(r); out32((int)(p - buf));
#else
      CUR_PP = NULL; r = PFEED(p, buf + n, ST);
      out8('F'); out8(r); out32(-1);
#endif
      free(buf);
    } break;
    case 'E': {
      CUR_PP = NULL;
#if EOFS
      int r = PEND(ST); out8('E'); out8(r);
#else
      out8('E'); out8(255);
#endif
    } break;
    case 'N': out8('N'); out32((int)ST->state); snap(); break;
    case 'R': shim_free(); out8('R'); break;
    case 'X': case 'G': {
      int L = rd8(), nr = rd8(); unsigned char reps[256]; for (int i = 0; i < nr; i++) reps[i] = rd8();
      int do_end = rd8();
      GMASK = (do_end & 2) ? 0x7fffffffu : 0; NOOFF = (do_end & 4) != 0; do_end &= 1;
      exhaust(op == 'G', L, nr, reps, do_end);
    } break;
    case 'W': {
      int n = rd8(); int do_end = rd8(); const unsigned char *str = IN + INP; INP += n;
      witness(str, n, do_end);
    } break;
    default: fprintf(stderr, "bad op %u at %zu\n", op, INP); return 3;
    }
    if (FLUSH_EACH) flushout();
  }
  flushout();
  shim_release();
  free(ST); free(IN); free(OUTB);
  return 0;
}
'''


def declared_capacity(out):
    """bytes a string output may hold, from its declaration alone (str[N]: N - 1 plus the terminator; unterminated str[N]: N) - not nmfu's own
    effective_string_size(), so that a change to that method shows up as a difference"""
    return out.str_size - 1 if out.str_null else out.str_size


def gen_shim(acc, sentinels=None):
    name = acc.name
    d = acc.dctx
    spec = d.state_object_spec
    PD, PF = N.ProgramData, N.ProgramFlag
    indirect = PD.do(PF.INDIRECT_START_PTR)
    eof = PD.do(PF.EOF_SUPPORT)
    dynmem = PD.do(PF.DYNAMIC_MEMORY)
    dyn = PD.do(PF.ALLOCATE_STR_SPACE_DYNAMIC)
    per_state = PD.do(PF.HOOK_PER_STATE)
    o = []
    o.append('#include "%s.h"\n#include <string.h>\n#include <stdlib.h>' % name)
    o.append("#define PSTATE_T %s_state_t\n#define PSTART %s_start\n#define PFEED %s_feed\n#define PEND %s_end" % ((name,) * 4))
    o.append("#define INDIRECT %d\n#define EOFS %d\n#define ZEROLEN %d" % (int(indirect), int(eof), int(PD.do(PF.ZERO_LEN_INPUT_SUPPORT))))
    o.append("#define FIRST_YIELD %d" % (3 + len(d.finish_codes)))
    o.append("static void hook_record(int idx, uint8_t inval);")
    for i, h in enumerate(d.hooks):
        if per_state:
            o.append("static void hk_%s(%s_state_t *st, uint8_t inval){ (void)st; hook_record(%d, inval); }" % (h, name, i))
        else:
            o.append("void %s_%s_hook(%s_state_t *st, uint8_t inval){ (void)st; hook_record(%d, inval); }" % (name, h, name, i))
    o.append("static PSTATE_T *ST;")
    o.append("static void install_hooks(void);")
    o.append("static void shim_release(void); static void shim_free(void);")
    o.append("static void shim_set_int(unsigned i, long long v); static void shim_set_buf(unsigned i, const unsigned char *p, int n);")
    o.append(DRIVER)
    o.append("static void install_hooks(void){")
    if per_state:
        for h in d.hooks:
            o.append("  ST->%s_hook = hk_%s;" % (h, h))
    o.append("}")
    o.append("static void snap(void){")
    for nm, out in spec.items():
        if out.type == T.STR:
            o.append("  { out32((int)ST->%s_counter); " % nm)
            if dyn:
                o.append("    out8(ST->c.%s != NULL); if (ST->c.%s) { outb(ST->c.%s, ST->%s_counter); %s }" % (
                    nm, nm, nm, nm, ("out8(((unsigned char*)ST->c.%s)[ST->%s_counter]);" % (nm, nm)) if out.str_null else ""))
            else:
                o.append("    out8(1); outb(ST->c.%s, ST->%s_counter); %s" % (
                    nm, nm, ("out8(((unsigned char*)ST->c.%s)[ST->%s_counter]);" % (nm, nm)) if out.str_null else ""))
            o.append("  }")
        elif out.type == T.RAW:
            o.append("  { out32((int)ST->%s_counter); outb(&ST->c.%s, sizeof(ST->c.%s)); }" % (nm, nm, nm))
        else:
            o.append("  out64((long long)ST->c.%s);" % nm)
    o.append("}")
    # normalised snapshot (representation independent): ints as i64, buffers as length + bytes
    o.append("static void snapn(void){")
    for nm, out in spec.items():
        if out.type == T.STR:
            o.append("  { out32((int)ST->%s_counter); if (ST->%s_counter) { if (ST->c.%s) outb(ST->c.%s, ST->%s_counter); else out8(0xEE); } }" % (nm, nm, nm, nm, nm))
        elif out.type == T.RAW:
            o.append("  { out32((int)ST->%s_counter); outb(&ST->c.%s, ST->%s_counter <= sizeof(ST->c.%s) ? ST->%s_counter : sizeof(ST->c.%s)); }" % (nm, nm, nm, nm, nm, nm))
        else:
            o.append("  out64((long long)ST->c.%s);" % nm)
    o.append("}")
    # invariants checked after every feed call: counter <= capacity, terminator present, sentinels intact
    # a terminated string that has held something must be an empty C string again when its length returns to 0 (delete, `s = "";`)
    strs = [nm for nm, out in spec.items() if out.type == T.STR]
    o.append("static unsigned char WR[%d];" % max(len(strs), 1))
    o.append("static void shim_reset_wr(void){ memset(WR, 0, sizeof WR); }")
    o.append("static int inv(void){")
    k = 1
    for nm, out in spec.items():
        if out.type == T.STR:
            wi = strs.index(nm)
            o.append("  if (ST->%s_counter > %d) return %d;" % (nm, declared_capacity(out), k))
            o.append("  if (ST->%s_counter > 0) WR[%d] = 1;" % (nm, wi))
            if out.str_null:
                # (a string that was never written has no terminator - start() does not store one - so length 0 is only checked for strings
                # that start() itself writes, i.e. those with a default value, and for strings that have been seen non-empty in this run)
                o.append("  if (ST->c.%s && ST->%s_counter <= %d && ((unsigned char*)ST->c.%s)[ST->%s_counter] != 0 && (ST->%s_counter > 0 || %d || WR[%d])) return %d;" % (
                    nm, nm, declared_capacity(out), nm, nm, nm, 1 if out.default_value is not None else 0, wi, k + 1))
            if dyn:
                o.append("  if (!ST->c.%s && ST->%s_counter > 0) return %d;" % (nm, nm, k + 2))
        elif out.type == T.RAW:
            o.append("  if (ST->%s_counter > sizeof(ST->c.%s)) return %d;" % (nm, nm, k))
        k += 3
    for nm, val in (sentinels or {}).items():
        o.append("  if ((long long)ST->c.%s != %dLL) return %d;" % (nm, val, 100 + list(spec).index(nm)))
    o.append("  return 0; }")
    o.append("static int ptrs_null(void){")
    if dynmem and dyn:
        for nm, out in spec.items():
            if out.type == T.STR:
                o.append("  if (ST->c.%s) return 0;" % nm)
    o.append("  return 1; }")
    # scalar outputs without a default value are not initialised by start() (their value is unspecified until assigned): the harness gives them a
    # defined value after poisoning the struct, so that reading them in a snapshot is not undefined behaviour of the harness itself
    o.append("static void shim_prezero(void){")
    for nm, out in spec.items():
        if out.type in (T.INT, T.BOOL, T.ENUM) and out.default_value is None:
            o.append("  memset(&ST->c.%s, 0, sizeof(ST->c.%s));" % (nm, nm))
    o.append("}")
    o.append("static void shim_set_int(unsigned i, long long v){ switch(i){")
    for i, (nm, out) in enumerate(spec.items()):
        if out.type in (T.INT, T.BOOL):
            o.append("  case %d: ST->c.%s = v; break;" % (i, nm))
        elif out.type == T.ENUM:
            o.append("  case %d: ST->c.%s = (%s_out_%s_t)v; break;" % (i, nm, name, nm))
    o.append("  default: break; } }")
    o.append("static void shim_set_buf(unsigned i, const unsigned char *p, int n){ switch(i){")
    for i, (nm, out) in enumerate(spec.items()):
        if out.type == T.STR:
            term = "((unsigned char*)ST->c.%s)[n] = 0;" % nm if out.str_null else ""
            if dyn:
                o.append("  case %d: if (n < 0){ free(ST->c.%s); ST->c.%s = NULL; ST->%s_counter = 0; break; } if (!ST->c.%s) ST->c.%s = malloc(%d); memcpy(ST->c.%s, p, n); %s ST->%s_counter = n; break;" % (
                    i, nm, nm, nm, nm, nm, out.str_size, nm, term, nm))
            else:
                o.append("  case %d: memcpy(ST->c.%s, p, n); %s ST->%s_counter = n; break;" % (i, nm, term, nm))
        elif out.type == T.RAW:
            o.append("  case %d: memcpy(&ST->c.%s, p, n); ST->%s_counter = n; break;" % (i, nm, nm))
    o.append("  default: break; } }")
    if dynmem:
        o.append("static void shim_free(void){ %s_free(ST); }" % name)
    else:
        o.append("static void shim_free(void){ }")
    # release: free whatever the harness itself may have allocated (dynamic strings) so LSan sees only real leaks
    o.append("static void shim_release(void){")
    if dyn:
        for nm, out in spec.items():
            if out.type == T.STR:
                o.append("  free(ST->c.%s); ST->c.%s = NULL;" % (nm, nm))
    o.append("}")
    return "\n".join(o) + "\n"


FLAVORS = {
    "gcc": ["gcc", "-std=gnu99", "-O1", "-w"],
    "gcc0": ["gcc", "-std=gnu99", "-O0", "-w"],
    "asan": ["clang", "-std=gnu99", "-O1", "-g", "-w", "-fsanitize=address,undefined", "-fno-sanitize-recover=all"],
    # unoptimised: every load and store the generated text contains is executed and instrumented (an optimiser may sink or drop a stray read)
    "asan0": ["clang", "-std=gnu99", "-O0", "-g", "-w", "-fsanitize=address,undefined", "-fno-sanitize-recover=all"],
}


class BuildError(Exception):
    pass


class CProg:
    """a built executable for one accepted program (acc must have been compiled with the flags still loaded)"""

    def __init__(self, acc, flavor="gcc0", keep=False, sentinels=None):
        self.acc = acc
        self.name = acc.name
        self.spec = acc.dctx.state_object_spec
        self.names = list(self.spec)
        self.hooks = list(acc.dctx.hooks)
        self.codes = ["OK", "FAIL", "DONE"] + ["FINISH_" + x for x in acc.dctx.finish_codes] + \
                     ["YIELD_" + x for x in acc.dctx.yield_codes]
        PD, PF = N.ProgramData, N.ProgramFlag
        self.dyn = PD.do(PF.ALLOCATE_STR_SPACE_DYNAMIC)
        self.on_demand = PD.do(PF.ALLOCATE_STR_SPACE_DYNAMIC_ON_DEMAND)
        self.delete_frees = PD.do(PF.DELETE_STRING_FREE_MEMORY)
        self.indirect = PD.do(PF.INDIRECT_START_PTR)
        self.eof = PD.do(PF.EOF_SUPPORT)
        self.dir = tempfile.mkdtemp(prefix="nvc", dir=SCRATCH)
        self.keep = keep
        try:
            with open(os.path.join(self.dir, self.name + ".h"), "w") as f:
                f.write(acc.header)
            with open(os.path.join(self.dir, self.name + ".c"), "w") as f:
                f.write(acc.source)
            with open(os.path.join(self.dir, "shim.c"), "w") as f:
                f.write(gen_shim(acc, sentinels))
            self.exe = os.path.join(self.dir, "prog")
            r = subprocess.run(FLAVORS[flavor] + ["-o", self.exe, self.name + ".c", "shim.c"], cwd=self.dir,
                               capture_output=True, text=True)
            if r.returncode:
                raise BuildError(r.stderr[:3000])
        except BaseException:
            self.close()
            raise

    def close(self):
        if not self.keep:
            shutil.rmtree(self.dir, ignore_errors=True)

    def __enter__(self):
        return self

    def __exit__(self, *a):
        self.close()

    # ---- script building
    def op_start(self):
        return b"S"

    def op_poison(self, b):
        """the byte the in-C explorers fill the state struct with before every start() (default 0)"""
        return b"P" + bytes([b])

    def op_zero(self):
        return b"Z"

    def op_state(self, idx):
        return b"T" + struct.pack("<i", idx)

    def nullable_strings(self):
        """heap strings for which NULL (with length 0) is a state the generated code itself produces: allocated on demand, and either
        without a default value or freed by delete"""
        PD, PF = N.ProgramData, N.ProgramFlag
        if not self.on_demand:
            return []
        return [nm for nm in self.names if self.spec[nm].type == T.STR and (self.spec[nm].default_value is None or self.delete_frees)]

    def op_data(self, data, null_empty=False):
        out = []
        nullable = self.nullable_strings() if null_empty else []
        for i, nm in enumerate(self.names):
            o = self.spec[nm]
            v = data[nm]
            if o.type == T.STR and len(v) == 0 and nm in nullable:
                out.append(b"B" + struct.pack("<Bi", i, -1))
            elif o.type in (T.STR, T.RAW):
                out.append(b"B" + struct.pack("<Bi", i, len(v)) + v)
            else:
                out.append(b"I" + struct.pack("<BQ", i, v & 0xFFFFFFFFFFFFFFFF))
        return b"".join(out)

    def op_feed(self, chunk, off0=0):
        return b"F" + struct.pack("<ii", len(chunk), off0) + bytes(chunk)

    def op_end(self):
        return b"E"

    def op_snap(self):
        return b"N"

    def op_free(self):
        return b"R"

    def op_witness(self, data, do_end=False):
        data = bytes(data)[:250]
        return b"W" + bytes([len(data), 1 if do_end else 0]) + data

    def op_exhaust(self, L, reps, do_end=False, digest=False, bytewise=False, no_offsets=False):
        """X: every string x every composition compared with the one-chunk run.  G (digest): one trace hash per string, fed in one chunk or byte-wise"""
        return (b"G" if digest else b"X") + bytes([L, len(reps)]) + bytes(reps) + bytes([(1 if do_end else 0) | (2 if bytewise else 0) | (4 if no_offsets else 0)])

    def parse_trace(self, raw):
        """records of a chunk-independent trace produced by run_one (normalised snapshots)"""
        out = []
        pos = 0
        while pos < len(raw):
            k = raw[pos:pos + 1]
            if k == b"S":
                out.append(("start", self.code(raw[pos + 1]))); pos += 2
            elif k == b"H":
                idx, inval, off = struct.unpack_from("<BBi", raw, pos + 1)
                d, pos = self._snapn(raw, pos + 7)
                out.append(("hook", self.hooks[idx], inval, off, d))
            elif k == b"Y":
                c, off = struct.unpack_from("<Bi", raw, pos + 1)
                out.append(("yield", self.code(c), off)); pos += 6
            elif k == b"T":
                c, off = struct.unpack_from("<Bi", raw, pos + 1)
                out.append(("result", self.code(c), off)); pos += 6
            elif k == b"E":
                out.append(("end", self.code(raw[pos + 1]))); pos += 2
            elif k == b"V":
                out.append(("invariant", raw[pos + 1])); pos += 2
            elif k == b"L":
                out.append(("livelock",)); pos += 1
            elif k == b"N":
                d, pos = self._snapn(raw, pos + 5)
                out.append(("final", d))
            else:
                out.append(("?", raw[pos:pos + 8].hex())); break
        return out

    def _snapn(self, raw, pos):
        d = {}
        for nm, o in self.spec.items():
            if o.type in (T.STR, T.RAW):
                n = struct.unpack_from("<i", raw, pos)[0]
                pos += 4
                if o.type == T.STR and n and raw[pos] == 0xEE and False:
                    d[nm] = None
                m = min(max(n, 0), RAW_SIZE(o)) if o.type == T.RAW else max(n, 0)
                d[nm] = (n, bytes(raw[pos:pos + m]))
                pos += m
            else:
                d[nm] = struct.unpack_from("<q", raw, pos)[0]
                pos += 8
        return d, pos

    # ---- running
    def run(self, script, timeout=20, env=None):
        """-> (records, status) ; status: 'ok' | 'timeout' | 'signal:<n>' | 'exit:<n>' ; stderr kept in self.stderr"""
        e = dict(os.environ)
        e["ASAN_OPTIONS"] = "detect_leaks=1:abort_on_error=0:exitcode=77"
        e["UBSAN_OPTIONS"] = "print_stacktrace=0:halt_on_error=1:exitcode=78"
        if env:
            e.update(env)
        try:
            r = subprocess.run([self.exe], input=script, capture_output=True, timeout=timeout, env=e)
        except subprocess.TimeoutExpired as te:
            self.stderr = ""
            return self.parse(te.stdout or b"", partial=True), "timeout"
        self.stderr = r.stderr.decode("latin-1")[-3000:]
        if r.returncode < 0:
            return self.parse(r.stdout, partial=True), "signal:%d" % (-r.returncode)
        if r.returncode:
            return self.parse(r.stdout, partial=True), "exit:%d" % r.returncode
        return self.parse(r.stdout), "ok"

    def _snap(self, raw, pos):
        d = {}
        meta = {}
        for nm, o in self.spec.items():
            if o.type == T.STR:
                n, has = struct.unpack_from("<iB", raw, pos)
                pos += 5
                if has:
                    d[nm] = bytes(raw[pos:pos + n])
                    pos += n
                    if o.str_null:
                        meta[nm] = raw[pos]
                        pos += 1
                else:
                    d[nm] = b"" if n == 0 else None
                    meta[nm] = "nullptr"
            elif o.type == T.RAW:
                n = struct.unpack_from("<i", raw, pos)[0]
                pos += 4
                sz = RAW_SIZE(o)
                d[nm] = bytes(raw[pos:pos + sz][:max(n, 0)])
                pos += sz
            else:
                d[nm] = struct.unpack_from("<q", raw, pos)[0]
                pos += 8
        return d, meta, pos

    def parse(self, raw, partial=False):
        recs = []
        pos = 0
        try:
            while pos < len(raw):
                k = raw[pos:pos + 1]
                if k == b"H":
                    idx, inval, off = struct.unpack_from("<BBi", raw, pos + 1)
                    d, meta, pos = self._snap(raw, pos + 7)
                    recs.append(("H", self.hooks[idx], inval, off, d, meta))
                elif k == b"S":
                    recs.append(("S", self.code(raw[pos + 1])))
                    pos += 2
                elif k == b"F":
                    c, cons = struct.unpack_from("<Bi", raw, pos + 1)
                    recs.append(("F", self.code(c), cons))
                    pos += 6
                elif k == b"E":
                    recs.append(("E", self.code(raw[pos + 1])))
                    pos += 2
                elif k == b"N":
                    st = struct.unpack_from("<i", raw, pos + 1)[0]
                    d, meta, pos = self._snap(raw, pos + 5)
                    recs.append(("N", st, d, meta))
                elif k == b"R":
                    recs.append(("R",))
                    pos += 1
                elif k == b"W":
                    ns, nd, bm = struct.unpack_from("<qqi", raw, pos + 1)
                    recs.append(("W", dict(schedules=ns, diffs=nd, mask=bm)))
                    pos += 21
                elif k in (b"X", b"G"):
                    nstr, nsched, nfeed, ndiff, ninv, nlive = struct.unpack_from("<qqqqqq", raw, pos + 1)
                    n = struct.unpack_from("<i", raw, pos + 49)[0]
                    body = bytes(raw[pos + 53:pos + 53 + n])
                    pos += 53 + n
                    rec = dict(strings=nstr, schedules=nsched, feeds=nfeed, diffs=ndiff, invariant_hits=ninv, livelocks=nlive)
                    if k == b"G":
                        rec["digests"] = [struct.unpack_from("<Q", body, i)[0] for i in range(0, len(body), 8)]
                    else:
                        ds = []
                        bp = 0
                        while bp < len(body) and body[bp:bp + 1] == b"D":
                            ln = body[bp + 1]
                            sbytes = body[bp + 2:bp + 2 + ln]
                            mask, rn = struct.unpack_from("<ii", body, bp + 2 + ln)
                            rt = body[bp + 10 + ln:bp + 10 + ln + rn]
                            tn = struct.unpack_from("<i", body, bp + 10 + ln + rn)[0]
                            tt = body[bp + 14 + ln + rn:bp + 14 + ln + rn + tn]
                            bp += 14 + ln + rn + tn
                            ds.append(dict(input=sbytes, mask=mask, one_chunk=self.parse_trace(rt), chunked=self.parse_trace(tt)))
                        rec["diff_details"] = ds
                    recs.append((k.decode(), rec))
                else:
                    raise ValueError("bad record %r at %d" % (k, pos))
        except (struct.error, IndexError):
            if not partial:
                raise
        return recs

    def code(self, c):
        return self.codes[c] if c < len(self.codes) else "CODE%d" % c


def RAW_SIZE(o):
    from .am import RAW_SIZES
    return RAW_SIZES[o.raw_underlying]


def norm_int(out, v):
    """normalise a logged long long to the declared type's value range (unsigned 64-bit shows up negative)"""
    from .am import int_ctype, wrap
    if out.type == T.INT:
        return wrap(v, int_ctype(out))
    return v
