"""Emit + generated shim + generic op-interpreter driver -> executable, run in a sacrificial child process.

The executable reads a binary op script on stdin and writes a binary record stream on stdout.  Death by
signal, sanitizer abort or timeout is a reportable outcome of the program under test.
"""
import os
import shutil
import struct
import subprocess
import tempfile

from .loader import N

T = N.OutputStorageType
SCRATCH = os.environ.get("NV_SCRATCH") or ("/dev/shm" if os.path.isdir("/dev/shm") else tempfile.gettempdir())

DRIVER = r'''
/* ---- generic driver (same text for every program) ---- */
#include <stdio.h>
static unsigned char *OUTB; static size_t OUTN, OUTCAP; static int FLUSH_EACH;
static void outb(const void *p, size_t n){
  if (OUTN + n > OUTCAP){ OUTCAP = (OUTCAP + n) * 2 + 4096; OUTB = realloc(OUTB, OUTCAP); }
  memcpy(OUTB + OUTN, p, n); OUTN += n;
}
static void out8(unsigned v){ unsigned char c = (unsigned char)v; outb(&c, 1); }
static void out32(int v){ outb(&v, 4); }
static void out64(long long v){ outb(&v, 8); }
static void flushout(void){ if (OUTN){ fwrite(OUTB, 1, OUTN, stdout); fflush(stdout); OUTN = 0; } }
static const unsigned char *CUR_BASE; static const uint8_t **CUR_PP; static int CUR_OFF0;
static PSTATE_T *ST;
static void snap(void);
static void hook_record(int idx, uint8_t inval){
  out8('H'); out8(idx); out8(inval);
  out32(CUR_PP ? (int)(*CUR_PP - CUR_BASE) + CUR_OFF0 : -1);
  snap();
  if (FLUSH_EACH) flushout();
}
static unsigned char *IN; static size_t INN, INP;
static unsigned rd8(void){ return IN[INP++]; }
static int rd32(void){ int v; memcpy(&v, IN + INP, 4); INP += 4; return v; }
static long long rd64(void){ long long v; memcpy(&v, IN + INP, 8); INP += 8; return v; }
int main(int argc, char **argv){
  size_t cap = 1 << 16; IN = malloc(cap);
  for (;;){ if (INN == cap){ cap *= 2; IN = realloc(IN, cap); } size_t r = fread(IN + INN, 1, cap - INN, stdin); if (!r) break; INN += r; }
  FLUSH_EACH = getenv("DRV_FLUSH") != NULL;
  ST = malloc(sizeof(PSTATE_T)); memset(ST, 0, sizeof(PSTATE_T)); install_hooks();
  while (INP < INN){
    unsigned op = rd8();
    switch (op){
    case 'Z': shim_release(); memset(ST, 0, sizeof(PSTATE_T)); install_hooks(); break;
    case 'S': { CUR_PP = NULL; int r = PSTART(ST); install_hooks(); out8('S'); out8(r); } break;
    case 'T': ST->state = rd32(); break;
    case 'I': { unsigned i = rd8(); long long v = rd64(); shim_set_int(i, v); } break;
    case 'B': { unsigned i = rd8(); int n = rd32(); shim_set_buf(i, IN + INP, n); INP += n; } break;
    case 'F': {
      int n = rd32(); int off0 = rd32();
      unsigned char *buf = malloc(n ? n : 1); memcpy(buf, IN + INP, n); INP += n;
      const uint8_t *p = buf; int r;
      CUR_BASE = buf; CUR_OFF0 = off0;
#if INDIRECT
      CUR_PP = &p; r = PFEED(&p, buf + n, ST); CUR_PP = NULL;
      out8('F'); out8(r); out32((int)(p - buf));
#else
      CUR_PP = NULL; r = PFEED(p, buf + n, ST);
      out8('F'); out8(r); out32(-1);
#endif
      free(buf);
    } break;
    case 'E': {
      CUR_PP = NULL;
#if EOFS
      int r = PEND(ST); out8('E'); out8(r);
#else
      out8('E'); out8(255);
#endif
    } break;
    case 'N': out8('N'); out32((int)ST->state); snap(); break;
    case 'R': shim_free(); out8('R'); break;
    default: fprintf(stderr, "bad op %u at %zu\n", op, INP); return 3;
    }
    if (FLUSH_EACH) flushout();
  }
  flushout();
  shim_release();
  free(ST); free(IN); free(OUTB);
  return 0;
}
'''


def gen_shim(acc):
    name = acc.name
    d = acc.dctx
    spec = d.state_object_spec
    PD, PF = N.ProgramData, N.ProgramFlag
    indirect = PD.do(PF.INDIRECT_START_PTR)
    eof = PD.do(PF.EOF_SUPPORT)
    dynmem = PD.do(PF.DYNAMIC_MEMORY)
    dyn = PD.do(PF.ALLOCATE_STR_SPACE_DYNAMIC)
    per_state = PD.do(PF.HOOK_PER_STATE)
    o = []
    o.append('#include "%s.h"\n#include <string.h>\n#include <stdlib.h>' % name)
    o.append("#define PSTATE_T %s_state_t\n#define PSTART %s_start\n#define PFEED %s_feed\n#define PEND %s_end" % ((name,) * 4))
    o.append("#define INDIRECT %d\n#define EOFS %d" % (int(indirect), int(eof)))
    o.append("static void hook_record(int idx, uint8_t inval);")
    for i, h in enumerate(d.hooks):
        if per_state:
            o.append("static void hk_%s(%s_state_t *st, uint8_t inval){ (void)st; hook_record(%d, inval); }" % (h, name, i))
        else:
            o.append("void %s_%s_hook(%s_state_t *st, uint8_t inval){ (void)st; hook_record(%d, inval); }" % (name, h, name, i))
    o.append("static PSTATE_T *ST;")
    o.append("static void install_hooks(void);")
    o.append("static void shim_release(void); static void shim_free(void);")
    o.append("static void shim_set_int(unsigned i, long long v); static void shim_set_buf(unsigned i, const unsigned char *p, int n);")
    o.append(DRIVER)
    o.append("static void install_hooks(void){")
    if per_state:
        for h in d.hooks:
            o.append("  ST->%s_hook = hk_%s;" % (h, h))
    o.append("}")
    o.append("static void snap(void){")
    for nm, out in spec.items():
        if out.type == T.STR:
            o.append("  { out32((int)ST->%s_counter); " % nm)
            if dyn:
                o.append("    out8(ST->c.%s != NULL); if (ST->c.%s) { outb(ST->c.%s, ST->%s_counter); %s }" % (
                    nm, nm, nm, nm, ("out8(((unsigned char*)ST->c.%s)[ST->%s_counter]);" % (nm, nm)) if out.str_null else ""))
            else:
                o.append("    out8(1); outb(ST->c.%s, ST->%s_counter); %s" % (
                    nm, nm, ("out8(((unsigned char*)ST->c.%s)[ST->%s_counter]);" % (nm, nm)) if out.str_null else ""))
            o.append("  }")
        elif out.type == T.RAW:
            o.append("  { out32((int)ST->%s_counter); outb(&ST->c.%s, sizeof(ST->c.%s)); }" % (nm, nm, nm))
        else:
            o.append("  out64((long long)ST->c.%s);" % nm)
    o.append("}")
    o.append("static void shim_set_int(unsigned i, long long v){ switch(i){")
    for i, (nm, out) in enumerate(spec.items()):
        if out.type in (T.INT, T.BOOL):
            o.append("  case %d: ST->c.%s = v; break;" % (i, nm))
        elif out.type == T.ENUM:
            o.append("  case %d: ST->c.%s = (%s_out_%s_t)v; break;" % (i, nm, name, nm))
    o.append("  default: break; } }")
    o.append("static void shim_set_buf(unsigned i, const unsigned char *p, int n){ switch(i){")
    for i, (nm, out) in enumerate(spec.items()):
        if out.type == T.STR:
            term = "((unsigned char*)ST->c.%s)[n] = 0;" % nm if out.str_null else ""
            if dyn:
                o.append("  case %d: if (!ST->c.%s) ST->c.%s = malloc(%d); memcpy(ST->c.%s, p, n); %s ST->%s_counter = n; break;" % (
                    i, nm, nm, out.str_size, nm, term, nm))
            else:
                o.append("  case %d: memcpy(ST->c.%s, p, n); %s ST->%s_counter = n; break;" % (i, nm, term, nm))
        elif out.type == T.RAW:
            o.append("  case %d: memcpy(&ST->c.%s, p, n); ST->%s_counter = n; break;" % (i, nm, nm))
    o.append("  default: break; } }")
    if dynmem:
        o.append("static void shim_free(void){ %s_free(ST); }" % name)
    else:
        o.append("static void shim_free(void){ }")
    # release: free whatever the harness itself may have allocated (dynamic strings) so LSan sees only real leaks
    o.append("static void shim_release(void){")
    if dyn:
        for nm, out in spec.items():
            if out.type == T.STR:
                o.append("  free(ST->c.%s); ST->c.%s = NULL;" % (nm, nm))
    o.append("}")
    return "\n".join(o) + "\n"


FLAVORS = {
    "gcc": ["gcc", "-std=gnu99", "-O1", "-w"],
    "gcc0": ["gcc", "-std=gnu99", "-O0", "-w"],
    "asan": ["clang", "-std=gnu99", "-O1", "-g", "-w", "-fsanitize=address,undefined", "-fno-sanitize-recover=all"],
}


class BuildError(Exception):
    pass


class CProg:
    """a built executable for one accepted program (acc must have been compiled with the flags still loaded)"""

    def __init__(self, acc, flavor="gcc0", keep=False):
        self.acc = acc
        self.name = acc.name
        self.spec = acc.dctx.state_object_spec
        self.names = list(self.spec)
        self.hooks = list(acc.dctx.hooks)
        self.codes = ["OK", "FAIL", "DONE"] + ["FINISH_" + x for x in acc.dctx.finish_codes] + \
                     ["YIELD_" + x for x in acc.dctx.yield_codes]
        PD, PF = N.ProgramData, N.ProgramFlag
        self.dyn = PD.do(PF.ALLOCATE_STR_SPACE_DYNAMIC)
        self.indirect = PD.do(PF.INDIRECT_START_PTR)
        self.eof = PD.do(PF.EOF_SUPPORT)
        self.dir = tempfile.mkdtemp(prefix="nvc", dir=SCRATCH)
        self.keep = keep
        try:
            with open(os.path.join(self.dir, self.name + ".h"), "w") as f:
                f.write(acc.header)
            with open(os.path.join(self.dir, self.name + ".c"), "w") as f:
                f.write(acc.source)
            with open(os.path.join(self.dir, "shim.c"), "w") as f:
                f.write(gen_shim(acc))
            self.exe = os.path.join(self.dir, "prog")
            r = subprocess.run(FLAVORS[flavor] + ["-o", self.exe, self.name + ".c", "shim.c"], cwd=self.dir,
                               capture_output=True, text=True)
            if r.returncode:
                raise BuildError(r.stderr[:3000])
        except BaseException:
            self.close()
            raise

    def close(self):
        if not self.keep:
            shutil.rmtree(self.dir, ignore_errors=True)

    def __enter__(self):
        return self

    def __exit__(self, *a):
        self.close()

    # ---- script building
    def op_start(self):
        return b"S"

    def op_zero(self):
        return b"Z"

    def op_state(self, idx):
        return b"T" + struct.pack("<i", idx)

    def op_data(self, data):
        out = []
        for i, nm in enumerate(self.names):
            o = self.spec[nm]
            v = data[nm]
            if o.type in (T.STR, T.RAW):
                out.append(b"B" + struct.pack("<Bi", i, len(v)) + v)
            else:
                out.append(b"I" + struct.pack("<BQ", i, v & 0xFFFFFFFFFFFFFFFF))
        return b"".join(out)

    def op_feed(self, chunk, off0=0):
        return b"F" + struct.pack("<ii", len(chunk), off0) + bytes(chunk)

    def op_end(self):
        return b"E"

    def op_snap(self):
        return b"N"

    def op_free(self):
        return b"R"

    # ---- running
    def run(self, script, timeout=20, env=None):
        """-> (records, status) ; status: 'ok' | 'timeout' | 'signal:<n>' | 'exit:<n>' ; stderr kept in self.stderr"""
        e = dict(os.environ)
        e["ASAN_OPTIONS"] = "detect_leaks=1:abort_on_error=0:exitcode=77"
        e["UBSAN_OPTIONS"] = "print_stacktrace=0:halt_on_error=1:exitcode=78"
        if env:
            e.update(env)
        try:
            r = subprocess.run([self.exe], input=script, capture_output=True, timeout=timeout, env=e)
        except subprocess.TimeoutExpired as te:
            self.stderr = ""
            return self.parse(te.stdout or b"", partial=True), "timeout"
        self.stderr = r.stderr.decode("latin-1")[-3000:]
        if r.returncode < 0:
            return self.parse(r.stdout, partial=True), "signal:%d" % (-r.returncode)
        if r.returncode:
            return self.parse(r.stdout, partial=True), "exit:%d" % r.returncode
        return self.parse(r.stdout), "ok"

    def _snap(self, raw, pos):
        d = {}
        meta = {}
        for nm, o in self.spec.items():
            if o.type == T.STR:
                n, has = struct.unpack_from("<iB", raw, pos)
                pos += 5
                if has:
                    d[nm] = bytes(raw[pos:pos + n])
                    pos += n
                    if o.str_null:
                        meta[nm] = raw[pos]
                        pos += 1
                else:
                    d[nm] = b"" if n == 0 else None
                    meta[nm] = "nullptr"
            elif o.type == T.RAW:
                n = struct.unpack_from("<i", raw, pos)[0]
                pos += 4
                sz = RAW_SIZE(o)
                d[nm] = bytes(raw[pos:pos + sz][:max(n, 0)])
                pos += sz
            else:
                d[nm] = struct.unpack_from("<q", raw, pos)[0]
                pos += 8
        return d, meta, pos

    def parse(self, raw, partial=False):
        recs = []
        pos = 0
        try:
            while pos < len(raw):
                k = raw[pos:pos + 1]
                if k == b"H":
                    idx, inval, off = struct.unpack_from("<BBi", raw, pos + 1)
                    d, meta, pos = self._snap(raw, pos + 7)
                    recs.append(("H", self.hooks[idx], inval, off, d, meta))
                elif k == b"S":
                    recs.append(("S", self.code(raw[pos + 1])))
                    pos += 2
                elif k == b"F":
                    c, cons = struct.unpack_from("<Bi", raw, pos + 1)
                    recs.append(("F", self.code(c), cons))
                    pos += 6
                elif k == b"E":
                    recs.append(("E", self.code(raw[pos + 1])))
                    pos += 2
                elif k == b"N":
                    st = struct.unpack_from("<i", raw, pos + 1)[0]
                    d, meta, pos = self._snap(raw, pos + 5)
                    recs.append(("N", st, d, meta))
                elif k == b"R":
                    recs.append(("R",))
                    pos += 1
                else:
                    raise ValueError("bad record %r at %d" % (k, pos))
        except (struct.error, IndexError):
            if not partial:
                raise
        return recs

    def code(self, c):
        return self.codes[c] if c < len(self.codes) else "CODE%d" % c


def RAW_SIZE(o):
    from .am import RAW_SIZES
    return RAW_SIZES[o.raw_underlying]


def norm_int(out, v):
    """normalise a logged long long to the declared type's value range (unsigned 64-bit shows up negative)"""
    from .am import int_ctype, wrap
    if out.type == T.INT:
        return wrap(v, int_ctype(out))
    return v
