"""AM - abstract machine over the compiler's DFA objects.

Reads the real DFState / DFTransition / Action objects of a real compilation, shares no code with
CodegenCtx.  One call processes ONE symbol (a byte 0..255 or END).  The step rules are those of
DESIGN.md section 3.4; they are bound to the emitted C by C06 (exhaustive one-step comparison).

Configuration: cfg = {"state": DFState, "data": {name: value}}
  int/bool/enum outputs -> python int already converted to the declared C type
  str/raw outputs       -> bytes (visible contents; len() is the counter)
"""
from .loader import N

T = N.OutputStorageType
END = 256  # symbol for end-of-input


class UB(Exception):
    """the C expression has undefined / unspecified behaviour for this valuation: skip, do not guess"""


class Spin(Exception):
    """exact configuration repeat inside one step: proven non-termination"""

    def __init__(self, msg, state_idx, via_override=False):
        super().__init__(msg)
        self.state_idx = state_idx
        self.via_override = via_override     # the cycle passes through an action's override target (overflow redirect / conditional break)


class Malformed(Exception):
    """machine violates an invariant codegen relies on"""


class _Term(Exception):
    def __init__(self, code):
        self.code = code


class _Redirect(Exception):
    pass


class _Skip(Exception):
    pass


RAW_SIZES = {"int8_t": 1, "uint8_t": 1, "int16_t": 2, "uint16_t": 2, "int32_t": 4, "uint32_t": 4,
             "int64_t": 8, "uint64_t": 8, "float": 4, "double": 8, "char": 1, "short": 2, "int": 4, "long": 8}

INT = (32, True)
LONG = (64, True)


def int_ctype(out):
    """(bits, signed) of the C type chosen for an int output (mirrors the documented mapping size->intN_t)"""
    w, s = out.int_width, out.int_signed
    if w is None:
        return (32, s)
    bits = {1: 8, 2: 16, 4: 32, 8: 64}.get(w)
    if bits is None:
        raise Malformed("int width %r" % (w,))
    return (bits, s)


def wrap(v, ct):
    bits, signed = ct
    v &= (1 << bits) - 1
    if signed and v >> (bits - 1):
        v -= 1 << bits
    return v


def promote(ct):
    return INT if ct[0] < 32 else ct


def common(a, b):
    a, b = promote(a), promote(b)
    if a == b:
        return a
    if a[1] == b[1]:
        return a if a[0] >= b[0] else b
    u, s = (a, b) if not a[1] else (b, a)
    if u[0] >= s[0]:
        return u
    return s


def fits(v, ct):
    bits, signed = ct
    if signed:
        return -(1 << (bits - 1)) <= v < (1 << (bits - 1))
    return 0 <= v < (1 << bits)


def conv(v, ct):
    """conversion to ct for arithmetic (unsigned wraps; signed must already fit)"""
    if ct[1]:
        if not fits(v, ct):
            return wrap(v, ct)  # implementation-defined, gcc wraps
        return v
    return v & ((1 << ct[0]) - 1)


def arith(op, l, lt, r, rt):
    ct = common(lt, rt)
    a, b = conv(l, ct), conv(r, ct)
    if op == "+":
        v = a + b
    elif op == "-":
        v = a - b
    elif op == "*":
        v = a * b
    elif op in ("/", "%"):
        if b == 0:
            raise UB("division by zero")
        q = abs(a) // abs(b)
        if (a < 0) != (b < 0):
            q = -q
        v = q if op == "/" else a - q * b
        if ct[1] and not fits(q, ct):
            raise UB("INT_MIN / -1")
    elif op == "|":
        v = a | b
    elif op == "^":
        v = a ^ b
    elif op == "&":
        v = a & b
    else:
        raise NotImplementedError(op)
    if ct[1]:
        if not fits(v, ct):
            raise UB("signed overflow")
        return v, ct
    return v & ((1 << ct[0]) - 1), ct


class _Parked:
    transitions = ()

    def __repr__(self):
        return "<parked after end() returned FAIL>"


PARKED = _Parked()


def yields_somewhere(action):
    """does this action (or a conditional's sub-action) return a yield code?  Decided on the action's class, not by asking nmfu's own
    may_return_early(): the pointer rule (only a yield leaves the pointer past the byte that carries it) is the machine model's, so a change
    to that method must show up as a difference between the C and the machine"""
    if isinstance(action, N.CustomYieldAction):
        return True
    return any(isinstance(x, N.CustomYieldAction) for x in action.all_subactions())


class AM:
    def __init__(self, dctx, name="p"):
        self.d = dctx
        self.dfa = dctx.dfa
        self.spec = dctx.state_object_spec          # dict name -> OutputStorage
        self.names = list(self.spec)
        self.fail = dctx.generic_fail_state
        self.states = self.dfa.states
        self.idx = {id(s): i for i, s in enumerate(self.states)}
        self.acc = set(id(s) for s in self.dfa.accepting_states)
        PD, PF = N.ProgramData, N.ProgramFlag
        self.strict_done = PD.do(PF.STRICT_DONE_TOKEN_GENERATION)
        self.unsafe_idx = PD.do(PF.UNSAFE_STRING_INDEXING)
        self.u8 = PD.do(PF.STRINGS_AS_U8)
        self.packed = PD.do(PF.USE_PACKED_ENUMS)
        self.eof = PD.do(PF.EOF_SUPPORT)
        self.hooks = list(dctx.hooks)
        self.codes = ["OK", "FAIL", "DONE"] + ["FINISH_" + x for x in dctx.finish_codes] + \
                     ["YIELD_" + x for x in dctx.yield_codes]
        self.max_steps = 4000
        self.overrides_in_step = 0

    # ---------------------------------------------------------------- data
    def capacity(self, o):
        if o.type == T.STR:
            return o.str_size - 1 if o.str_null else o.str_size      # from the declaration, not nmfu's effective_string_size()
        sz = RAW_SIZES.get(o.raw_underlying)
        if sz is None:
            raise Malformed("raw type of unknown size " + o.raw_underlying)
        return sz

    def lit_value(self, e):
        v = e.get_literal_result()
        if e.result_type() == T.ENUM:
            return e.model_ref.enum_values.index(v)
        return int(v)

    def init_data(self):
        data = {}
        for name, o in self.spec.items():
            if o.type == T.STR:
                dv = o.default_value
                if dv is None:
                    data[name] = b""
                elif isinstance(dv, bytes):
                    data[name] = dv
                else:
                    data[name] = dv.encode("latin-1", "replace")
            elif o.type == T.RAW:
                data[name] = b""
            else:
                data[name] = 0 if o.default_value is None else self.store(o, self.lit_value(o.default_value))
        return data

    def store(self, out, v):
        if out.type == T.BOOL:
            return int(bool(v))
        if out.type == T.ENUM:
            return v
        return wrap(v, int_ctype(out))

    # ---------------------------------------------------------------- typed expression evaluation
    def ev(self, e, data, last):
        """-> (value, ctype)"""
        if isinstance(e, N.LiteralIntegerExpr):
            v = self.lit_value(e)
            if e.result_type() == T.INT and not fits(abs(v), INT):
                return v, LONG
            return v, INT
        if isinstance(e, N.OutIntegerExpr):
            o = e.ref
            v = data[o.name]
            if o.type == T.INT:
                return v, promote(int_ctype(o))
            if o.type == T.ENUM:
                return v, (INT if self.packed else (32, False))
            return v, INT
        if isinstance(e, N.StringLengthIntegerExpr):
            return len(data[e.ref.name]), INT if self.capacity(e.ref) < (1 << 31) else (32, False)
        if isinstance(e, N.StringRefIntegerExpr):
            i, _ = self.ev(e.index, data, last)
            o = e.ref
            buf = data[o.name]
            size = o.str_size if o.type == T.STR else self.capacity(o)
            if not (0 <= i < size):
                if self.unsafe_idx:
                    raise UB("unsafe index out of range")
                return 0, INT
            if i < len(buf):
                return buf[i], INT   # indexed bytes are read as uint8_t (0..255) whatever the storage type
            if o.type == T.STR and o.str_null and i == len(buf) and len(buf) > 0:
                return 0, INT
            raise UB("read of a buffer byte that was never written")
        if isinstance(e, N.LastCharIntegerExpr):
            if last is None:
                raise UB("$last without a byte")
            return last, INT
        if isinstance(e, N.SumIntegerExpr):
            v, t = self.ev(e.children[0], data, last)
            v, t = v, promote(t)
            for c, neg in zip(e.children[1:], e.negate[1:]):
                w, wt = self.ev(c, data, last)
                v, t = arith("-" if neg else "+", v, t, w, wt)
            return v, t
        if isinstance(e, N.MulIntegerExpr):
            v, t = self.ev(e.children[0], data, last)
            t = promote(t)
            for c, op in zip(e.children[1:], e.divide[1:]):
                w, wt = self.ev(c, data, last)
                v, t = arith(op.value, v, t, w, wt)
            return v, t
        if isinstance(e, N.BitwiseIntegerExpr):
            v, t = self.ev(e.children[0], data, last)
            t = promote(t)
            for c in e.children[1:]:
                w, wt = self.ev(c, data, last)
                v, t = arith(e.op.value, v, t, w, wt)
            return v, t
        if isinstance(e, N.CompareIntegerExpr):
            l, lt = self.ev(e.left, data, last)
            r, rt = self.ev(e.right, data, last)
            ct = common(lt, rt)
            a, b = conv(l, ct), conv(r, ct)
            op = e.op.value
            return int({"<": a < b, ">": a > b, "<=": a <= b, ">=": a >= b, "==": a == b, "!=": a != b}[op]), INT
        if isinstance(e, N.DisjunctionIntegerExpr):
            for c in e.children:
                if self.ev(c, data, last)[0]:
                    return 1, INT
            return 0, INT
        if isinstance(e, N.ConjunctionIntegerExpr):
            for c in e.children:
                if not self.ev(c, data, last)[0]:
                    return 0, INT
            return 1, INT
        if isinstance(e, N.BitShiftIntegerExpr):
            l, lt = self.ev(e.left, data, last)
            r, _ = self.ev(e.right, data, last)
            lt = promote(lt)
            l = conv(l, lt)
            if r < 0 or r >= lt[0]:
                raise UB("shift count")
            if e.towards_left:
                if lt[1]:
                    if l < 0 or not fits(l << r, lt):
                        raise UB("signed left shift")
                    return l << r, lt
                return (l << r) & ((1 << lt[0]) - 1), lt
            return l >> r, lt
        raise NotImplementedError(type(e).__name__)

    def cond(self, c, data, last):
        if isinstance(c, N.ConstantCondition):
            return bool(c.get_literal_result())
        return bool(self.ev(c.expr, data, last)[0])

    # ---------------------------------------------------------------- actions
    def do_action(self, a, cfg, ev, last, hookval):
        data = cfg["data"]
        if isinstance(a, N.CustomFinishAction):
            ev.append(("finish", a.result_code, tuple(sorted(data.items()))))
            raise _Term("FINISH_" + a.result_code)
        if isinstance(a, N.FinishAction):
            ev.append(("finish", None, tuple(sorted(data.items()))))
            raise _Term("DONE")
        if isinstance(a, N.CustomYieldAction):
            ev.append(("yield", a.result_code, tuple(sorted(data.items()))))
            raise _Term("YIELD_" + a.result_code)
        if isinstance(a, N.SetTo):
            o = a.into_storage
            data[o.name] = self.store(o, self.ev(a.value_expr, data, last)[0])
            if a.is_timing_strict():
                ev.append(("selfset", o.name))
        elif isinstance(a, N.SetToStr):
            v = a.value_expr
            data[a.into_storage.name] = v if isinstance(v, bytes) else v.encode("latin-1", "replace")
        elif isinstance(a, N.DeleteBuf):
            data[a.into_storage.name] = b""
        elif isinstance(a, (N.AppendTo, N.AppendCharTo)):
            o = a.into_storage
            if len(data[o.name]) == self.capacity(o):
                cfg["state"] = a.end_target
                ev.append(("overflow", o.name))
                raise _Redirect()
            if isinstance(a, N.AppendTo):
                v = hookval if last is None else last
            else:
                v = self.ev(a.append_value, data, last)[0]
            data[o.name] = data[o.name] + bytes([v & 0xff])
            ev.append(("append", o.name, v & 0xff))
        elif isinstance(a, N.CallHook):
            ev.append(("hook", a.name, hookval, tuple(sorted(data.items()))))
        elif isinstance(a, N.ConditionalAction):
            for c in a.conditions:
                if self.cond(c, data, last):
                    for sa in a.sub_actions[c]:
                        self.do_action(sa, cfg, ev, last, hookval)
                    break
        elif isinstance(a, N.BreakAction):
            ev.append(("break",))
            for sa in a.replacement_actions():
                self.do_action(sa, cfg, ev, last, hookval)
            cfg["state"] = a.refers_to.end_state
            raise _Skip()
        else:
            raise NotImplementedError(type(a).__name__)

    # ---------------------------------------------------------------- transition selection (C order)
    def else_transition(self, s):
        for t in s.transitions:
            if N.DFTransition.Else in t.on_values:
                return t
        return None

    def pick(self, s, ch):
        el = self.else_transition(s)
        for t in s.transitions:
            if t is el:
                continue
            if ch in t.on_values:
                return t
        return el

    def pick_end(self, s):
        for t in s.transitions:
            if N.DFTransition.End in t.on_values:
                return t
        return self.else_transition(s)

    def immediate_done(self, t, from_end=False):
        return id(t.target) in self.acc and (from_end or not self.strict_done) and all(x.error_handling for x in t.target.transitions)

    # ---------------------------------------------------------------- one byte
    def feed_byte(self, cfg, b):
        """Process ONE byte.  -> (code, advanced, events)

        code: OK | OK* (OK without consuming - C10 forbids) | FAIL | DONE | FINISH_x | YIELD_x
        advanced: 1 iff the start pointer moves past this byte
        events: list; ("C", b) marks the point at which the byte is taken by a consuming transition
        """
        ev = []
        ch = chr(b)
        seen = set()
        self.overrides_in_step = 0
        for _ in range(self.max_steps):
            s = cfg["state"]
            key = (id(s), tuple(sorted(cfg["data"].items())))
            if key in seen:
                raise Spin("configuration repeats without consuming", self.idx.get(id(s), -1), self.overrides_in_step > 0)
            seen.add(key)
            if id(s) not in self.idx or s is self.fail:
                return ("FAIL", 0, ev)
            if isinstance(s, N.DFConditionPoint):
                t = None
                for ct in s.transitions:
                    if self.cond(ct.condition, cfg["data"], None):
                        t = ct
                        break
                if t is None:
                    return ("FAIL", 0, ev)
            else:
                if self.postponed_done(s):
                    return ("DONE", 0, ev)
                t = self.pick(s, ch)
                if t is None:
                    return ("DONE" if id(s) in self.acc else "OK*", 0, ev)
            in_states = id(t.target) in self.idx
            if in_states:
                cfg["state"] = t.target
            imm = self.immediate_done(t)
            consuming = not t.is_fallthrough
            early = consuming and not imm and any(yields_somewhere(x) for x in t.actions)
            mark = len(ev)
            try:
                for a in t.actions:
                    self.do_action(a, cfg, ev, b, b)
            except _Term as e:
                if consuming:
                    ev.insert(mark, ("C", b))
                return (e.code, 1 if early else 0, ev)
            except _Redirect:
                self.overrides_in_step += 1
                continue
            except _Skip:
                self.overrides_in_step += 1
            if t.is_fallthrough:
                if in_states:
                    continue
                return ("DONE" if id(s) in self.acc else "OK*", 0, ev)
            ev.insert(mark, ("C", b))
            if imm:
                return ("DONE", 0, ev)
            if in_states:
                return ("OK", 1, ev)
            return ("DONE" if id(s) in self.acc else "OK*", 0, ev)
        raise Spin("step budget exhausted", self.idx.get(id(cfg["state"]), -1))

    # ---------------------------------------------------------------- end of input
    def end(self, cfg):
        """-> (code, events).  A FAIL from end() is sticky: the machine is parked where every later call fails."""
        code, ev = self._end_inner(cfg)
        if code == "FAIL":
            cfg["state"] = PARKED
        return code, ev

    def postponed_done(self, s):
        return self.strict_done and id(s) in self.acc and all(x.error_handling for x in s.transitions)

    def _end_inner(self, cfg):
        """Mirrors the shape of feed on the symbol End; hooks see 255."""
        ev = []
        seen = set()
        for _ in range(self.max_steps):
            s = cfg["state"]
            key = (id(s), tuple(sorted(cfg["data"].items())))
            if key in seen:
                raise Spin("configuration repeats in end()", self.idx.get(id(s), -1))
            seen.add(key)
            if id(s) not in self.idx or s is self.fail:
                return ("FAIL", ev)
            final = "DONE" if id(s) in self.acc else "FAIL"
            if not isinstance(s, N.DFConditionPoint) and self.postponed_done(s):
                return ("DONE", ev)
            if isinstance(s, N.DFConditionPoint):
                t = None
                for ct in s.transitions:
                    if self.cond(ct.condition, cfg["data"], None):
                        t = ct
                        break
                final = "FAIL"
                if t is None:
                    return ("FAIL", ev)
            else:
                t = self.pick_end(s)
                if t is None:
                    return (final, ev)
            in_states = id(t.target) in self.idx
            if in_states:
                cfg["state"] = t.target
            mark = len(ev)
            try:
                for a in t.actions:
                    self.do_action(a, cfg, ev, None, 255)
            except _Term as e:
                if not t.is_fallthrough:
                    ev.insert(mark, ("C", END))
                return (e.code, ev)
            except _Redirect:
                continue
            except _Skip:
                pass
            if t.is_fallthrough:
                if in_states:
                    continue
                return (final, ev)
            ev.insert(mark, ("C", END))
            if self.immediate_done(t, True):
                return ("DONE", ev)
            return (final, ev)
        raise Spin("step budget exhausted in end()", self.idx.get(id(cfg["state"]), -1))

    # ---------------------------------------------------------------- start
    def start(self):
        cfg = {"state": self.dfa.starting_state, "data": self.init_data()}
        ev = []
        try:
            for a in self.d.start_actions:
                self.do_action(a, cfg, ev, None, 0)
        except _Term as e:
            return cfg, e.code, ev
        except (_Skip, _Redirect):
            # C: `return OK` from start with state already redirected
            return cfg, "OK", ev
        return cfg, "OK", ev

    # ---------------------------------------------------------------- whole-chunk helper
    def feed(self, cfg, chunk):
        """-> (code, consumed_count, events) for one feed() call on `chunk` (pointer semantics of the C)"""
        evs = []
        i = 0
        while i < len(chunk):
            code, adv, ev = self.feed_byte(cfg, chunk[i])
            evs += ev
            if code == "OK":
                i += 1
                continue
            if code == "OK*":
                return ("OK", i, evs)
            return (code, i + adv, evs)
        return ("OK", i, evs)

    def state_index(self, cfg):
        if cfg["state"] is PARKED:
            return len(self.states)
        return self.idx.get(id(cfg["state"]), -1)

    def key(self, cfg):
        return (self.state_index(cfg), tuple(sorted(cfg["data"].items())))

    def mkcfg(self, si, data):
        return {"state": self.states[si] if si < len(self.states) else PARKED, "data": dict(data)}


def well_formed(am):
    """invariants every loaded machine must satisfy; returns list of problems (strings)"""
    probs = []
    Else, End = N.DFTransition.Else, N.DFTransition.End
    for i, s in enumerate(am.states):
        if isinstance(s, N.DFConditionPoint):
            for j, t in enumerate(s.transitions):
                if isinstance(t.condition, N.ElseCondition) and j != len(s.transitions) - 1:
                    probs.append("state %d: else condition not last" % i)
            continue
        seen = {}
        nelse = 0
        for t in s.transitions:
            if Else in t.on_values:
                nelse += 1
            for v in t.on_values:
                if v is Else:
                    continue
                if v in seen and seen[v] is not t:
                    probs.append("state %d: symbol %r on two transitions" % (i, v))
                seen[v] = t
        if nelse > 1:
            probs.append("state %d: %d else transitions" % (i, nelse))
    if id(am.dfa.starting_state) not in am.idx:
        probs.append("starting state not in dfa.states")
    return probs
