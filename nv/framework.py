"""Evidence, violation / known-finding plumbing, replay files, worker pool."""
import os
import sys
import json
import time
import hashlib
import signal
import multiprocessing as mp

VERIF = os.path.dirname(os.path.dirname(os.path.abspath(__file__)))
EVID_DIR = os.environ.get("NV_EVID_DIR") or os.path.join(VERIF, "evidence")
REPLAY_DIR = os.environ.get("NV_REPLAY_DIR") or os.path.join(VERIF, "replays")
KNOWN = os.path.join(VERIF, "known_findings.json")
NPROC = int(os.environ.get("VERIF_JOBS", "16"))


def sha(x):
    if isinstance(x, str):
        x = x.encode("utf-8", "surrogateescape")
    return hashlib.sha256(x).hexdigest()


def jsonable(x):
    if isinstance(x, bytes):
        return {"hex": x.hex()}
    if isinstance(x, (list, tuple)):
        return [jsonable(i) for i in x]
    if isinstance(x, (set, frozenset)):
        return sorted(jsonable(i) for i in x)
    if isinstance(x, dict):
        return {str(k): jsonable(v) for k, v in x.items()}
    if isinstance(x, (int, float, str, bool)) or x is None:
        return x
    return repr(x)


def load_known():
    if not os.path.exists(KNOWN):
        return []
    with open(KNOWN) as f:
        return json.load(f)["findings"]


class Check:
    """One run of one property's check."""

    def __init__(self, pid, tier, seed, level, rule=""):
        self.pid = pid
        self.tier = tier
        self.seed = seed
        self.level = level
        self.rule = rule
        self.t0 = time.time()
        self.cov = {"states": 0, "transitions": 0, "traces_validated_against_impl": 0,
                    "programs": 0, "evaluations": 0}
        self.extra = {}
        self.distinct = set()
        self.samples = []
        self.assumptions = []
        self.exhaustive = None
        self.caps = []
        self.violations = []      # (sig, what, replay path)
        self.known_hits = {}      # sig -> (what, count)
        self.known = [k for k in load_known() if k.get("property") == pid and k.get("status") == "open"]
        self._vio_sigs = set()

    # -- coverage
    def add(self, **kw):
        for k, v in kw.items():
            self.cov[k] = self.cov.get(k, 0) + v

    def note(self, key):
        """record a distinct non-trivial case (hashable key)"""
        self.distinct.add(key if isinstance(key, (str, int)) else repr(key))

    def sample(self, s, limit=8):
        if len(self.samples) < limit:
            self.samples.append(jsonable(s))

    def cap(self, what):
        if len(self.caps) < 20:
            self.caps.append(what)
        self.extra["caps_hit"] = self.extra.get("caps_hit", 0) + 1

    # -- violations
    def match_known(self, sig):
        for k in self.known:
            m = k.get("sig")
            if m is None:
                continue
            if m == sig or (m.endswith("*") and sig.startswith(m[:-1])):
                return k
        return None

    def violation(self, sig, what, replay):
        """sig: root-cause signature used for known-finding matching and de-duplication."""
        k = self.match_known(sig)
        if k is not None:
            w, c = self.known_hits.get(k["sig"], (k["what"], 0))
            self.known_hits[k["sig"]] = (w, c + 1)
            return False
        if sig in self._vio_sigs:
            self.extra["duplicate_violations"] = self.extra.get("duplicate_violations", 0) + 1
            return True
        self._vio_sigs.add(sig)
        d = os.path.join(REPLAY_DIR, self.pid)
        os.makedirs(d, exist_ok=True)
        body = dict(property=self.pid, sig=sig, what=what, **jsonable(replay))
        path = os.path.join(d, sha(json.dumps(body, sort_keys=True))[:16] + ".json")
        with open(path, "w") as f:
            json.dump(body, f, indent=1, sort_keys=True)
        self.violations.append((sig, what, path))
        return True

    stop_on_duplicates = True

    def enough(self):
        """stop exploring once plenty of violations are in hand (a badly broken tree must not cost hours)"""
        if len(self.violations) + (self.extra.get("duplicate_violations", 0) if self.stop_on_duplicates else 0) >= 40:
            self.extra["stopped_early_after_violations"] = len(self.violations)
            self.exhaustive = False
            return True
        return False

    # -- finish
    def finish(self):
        os.makedirs(EVID_DIR, exist_ok=True)
        cov = dict(self.cov)
        cov.update(self.extra)
        cov["distinct_nontrivial"] = len(self.distinct)
        cov["rule"] = self.rule
        cov["samples"] = self.samples if self.samples else ["(none)"]
        if self.exhaustive is not None:
            cov["exhaustive"] = bool(self.exhaustive) and "stopped_early_after_violations" not in self.extra
        if self.caps:
            cov["caps"] = self.caps
        cov["known_findings_hit"] = {k: c for k, (w, c) in self.known_hits.items()}
        ev = dict(property_id=self.pid, tier=self.tier, seed=self.seed, level=self.level,
                  coverage=cov, assumptions=self.assumptions,
                  wall_s=round(time.time() - self.t0, 2), violations=len(self.violations))
        with open(os.path.join(EVID_DIR, self.pid + ".json"), "w") as f:
            json.dump(ev, f, indent=1, sort_keys=True)
        for sig, (w, c) in sorted(self.known_hits.items()):
            print("KNOWN-FINDING: property=%s %s [sig=%s, %d case(s) this run]" % (self.pid, w, sig, c))
        for sig, what, path in self.violations[:50]:
            print("  -- %s: %s" % (sig[:160], what[:400]))
            print("VIOLATION property=%s replay=%s" % (self.pid, path))
        brief = {k: cov[k] for k in ("programs", "states", "transitions", "traces_validated_against_impl",
                                     "evaluations", "distinct_nontrivial") if cov.get(k)}
        print("%s %s: %s wall=%.1fs violations=%d" % (self.pid, self.tier, brief, time.time() - self.t0,
                                                      len(self.violations)))
        return 1 if self.violations else 0


# ---------------------------------------------------------------------------------------------
# pool

class ItemTimeout(BaseException):
    pass


def _alarm(signum, frame):
    raise ItemTimeout()


_worker_fn = None


def _init(fn_mod, fn_name, initfn):
    global _worker_fn
    import importlib
    m = importlib.import_module(fn_mod)
    _worker_fn = getattr(m, fn_name)
    if initfn:
        getattr(m, initfn)()


def _run_item(arg):
    idx, item, tmo = arg
    signal.signal(signal.SIGALRM, _alarm)
    signal.alarm(tmo)
    try:
        return idx, _worker_fn(item)
    except ItemTimeout:
        return idx, {"harness_timeout": True}
    except Exception:  # noqa: BLE001
        import traceback
        return idx, {"harness_error": traceback.format_exc()[-2000:]}
    finally:
        signal.alarm(0)


def pmap(fn, items, timeout=120, procs=None, chunksize=4, maxtasks=400, init=None, stop=None):
    """Map a module-level function over items in a worker pool; yields (index, result) in completion order.

    Results are merged by the caller by index, so worker assignment never influences a verdict.
    """
    items = list(items)
    procs = procs or NPROC
    if procs <= 1 or len(items) <= 1:
        _init(fn.__module__, fn.__name__, init)
        for i, it in enumerate(items):
            yield _run_item((i, it, timeout))
            if stop is not None and stop():
                return
        return
    ctx = mp.get_context("fork")
    with ctx.Pool(procs, initializer=_init, initargs=(fn.__module__, fn.__name__, init),
                  maxtasksperchild=maxtasks) as pool:
        for r in pool.imap_unordered(_run_item, [(i, it, timeout) for i, it in enumerate(items)],
                                     chunksize=chunksize):
            yield r
            if stop is not None and stop():
                pool.terminate()
                return


def harness_fail(msg):
    """A failure of the machinery itself (never a finding): loud, exit code 2."""
    print("HARNESS-ERROR:", msg, file=sys.stderr)
    sys.exit(2)
