"""Brzozowski derivatives over a small regex core; independent of nmfu's class-splitting/Thompson/Hopcroft pipeline.

Core terms (hashable tuples):
  ("eps",) ("nul",) ("set", frozenset(symbols)) ("cat", a, b) ("altn", frozenset(terms))
  ("star", a) ("rep", a, lo, hi|None)
Symbols are ints 0..255 plus END (256).
"""
import functools

END = 256
EPS = ("eps",)
NUL = ("nul",)
ALLBYTES = frozenset(range(256))


def sset(x):
    x = frozenset(x)
    return ("set", x) if x else NUL


def cat(a, b):
    if a == NUL or b == NUL:
        return NUL
    if a == EPS:
        return b
    if b == EPS:
        return a
    if a[0] == "cat":  # right-nest for canonical form
        return cat(a[1], cat(a[2], b))
    return ("cat", a, b)


def alt(a, b):
    if a == NUL:
        return b
    if b == NUL:
        return a
    if a == b:
        return a
    xs = set()
    for x in (a, b):
        if x[0] == "altn":
            xs |= x[1]
        else:
            xs.add(x)
    if len(xs) == 1:
        return next(iter(xs))
    return ("altn", frozenset(xs))


def alts(xs):
    r = NUL
    for x in xs:
        r = alt(r, x)
    return r


def seq(*rs):
    out = EPS
    for r in reversed(rs):
        out = cat(r, out)
    return out


def star(a):
    if a in (EPS, NUL):
        return EPS
    if a[0] == "star":
        return a
    return ("star", a)


def rep(a, lo, hi):
    """a{lo,hi}; hi None = unbounded"""
    if hi is not None and hi < lo:
        return NUL
    if hi == 0:
        return EPS
    if a == NUL:
        return EPS if lo == 0 else NUL
    if a == EPS:
        return EPS
    if hi is None and lo == 0:
        return star(a)
    if lo == 1 and hi == 1:
        return a
    return ("rep", a, lo, hi)


def opt(a):
    return alt(a, EPS)


def plus(a):
    return cat(a, star(a))


def lit(bs):
    return seq(*[sset([b]) for b in bs])


def liti(bs):
    out = []
    for b in bs:
        c = chr(b)
        if c.isascii() and c.isalpha():
            out.append(sset([ord(c.lower()), ord(c.upper())]))
        else:
            out.append(sset([b]))
    return seq(*out)


@functools.lru_cache(maxsize=200000)
def nullable(r):
    t = r[0]
    if t == "eps":
        return True
    if t in ("nul", "set"):
        return False
    if t == "cat":
        return nullable(r[1]) and nullable(r[2])
    if t == "altn":
        return any(nullable(x) for x in r[1])
    if t == "star":
        return True
    if t == "rep":
        return r[2] == 0 or nullable(r[1])
    raise ValueError(r)


@functools.lru_cache(maxsize=400000)
def deriv(r, c):
    t = r[0]
    if t in ("eps", "nul"):
        return NUL
    if t == "set":
        return EPS if c in r[1] else NUL
    if t == "cat":
        d = cat(deriv(r[1], c), r[2])
        if nullable(r[1]):
            d = alt(d, deriv(r[2], c))
        return d
    if t == "altn":
        return alts(deriv(x, c) for x in r[1])
    if t == "star":
        return cat(deriv(r[1], c), r)
    if t == "rep":
        a, lo, hi = r[1], r[2], r[3]
        rest = rep(a, max(lo - 1, 0), None if hi is None else hi - 1)
        return cat(deriv(a, c), rest)
        # note: when a is nullable, a{lo,hi} = a{0,hi} as languages, and d(a{lo,hi}) = d(a) a{lo-1,hi-1} still holds
        # because a^k (k<lo) is contained in a^lo via eps-padding.
    raise ValueError(r)


@functools.lru_cache(maxsize=200000)
def symbols_of(r):
    """all symbol sets mentioned in r (for partitioning)"""
    t = r[0]
    if t == "set":
        return frozenset([r[1]])
    if t in ("eps", "nul"):
        return frozenset()
    if t == "cat":
        return symbols_of(r[1]) | symbols_of(r[2])
    if t == "altn":
        out = frozenset()
        for x in r[1]:
            out |= symbols_of(x)
        return out
    if t in ("star", "rep"):
        return symbols_of(r[1])
    raise ValueError(r)


def partition(sets, universe=ALLBYTES):
    """coarsest partition of `universe` under which membership in every given set is constant"""
    blocks = [frozenset(universe)]
    for s in sets:
        nb = []
        for b in blocks:
            i, o = b & s, b - s
            if i:
                nb.append(i)
            if o:
                nb.append(o)
        blocks = nb
    return sorted(blocks, key=min)


def representatives(blocks):
    """lowest and highest member of each block (two representatives defeat off-by-one range errors)"""
    out = []
    for b in blocks:
        lo, hi = min(b), max(b)
        out.append(lo)
        if hi != lo:
            out.append(hi)
    return sorted(set(out))


class Dfa:
    """explicit DFA of a core regex over given symbol representatives (lazily built)"""

    def __init__(self, r, reps):
        self.r0 = r
        self.reps = list(reps)
        self._dead = {}

    def step(self, q, c):
        return deriv(q, c)

    def dead(self, q):
        """no accepting state reachable from q"""
        if q == NUL:
            return True
        if q in self._dead:
            return self._dead[q]
        seen = {q}
        fr = [q]
        ok = False
        while fr:
            x = fr.pop()
            if nullable(x):
                ok = True
                break
            for c in self.reps:
                d = deriv(x, c)
                if d != NUL and d not in seen:
                    seen.add(d)
                    fr.append(d)
        self._dead[q] = not ok
        return not ok

    def reachable(self, cap=5000):
        seen = {self.r0}
        fr = [self.r0]
        while fr:
            x = fr.pop()
            for c in self.reps:
                d = deriv(x, c)
                if d != NUL and d not in seen:
                    seen.add(d)
                    fr.append(d)
                    if len(seen) > cap:
                        raise OverflowError("derivative automaton too large")
        return seen


def first(r, reps):
    return frozenset(c for c in reps if deriv(r, c) != NUL)
