"""Fresh import of /repo/nmfu.py and a wrapper around exactly the pipeline main() runs.

Every process that uses this module imports the *working tree* copy of nmfu (never an installed
or cached one), so the checks always decide the code as it stands in /repo.
"""
import os
import sys
import signal
import traceback

REPO = os.environ.get("NMFU_REPO", "/repo")
GUARD = "NMFU_VERIF"
os.environ.setdefault(GUARD, "1")

if REPO not in sys.path:
    sys.path.insert(0, REPO)
sys.dont_write_bytecode = True
import nmfu  # noqa: E402

assert os.path.realpath(nmfu.__file__) == os.path.realpath(os.path.join(REPO, "nmfu.py")), nmfu.__file__
N = nmfu
import lark  # noqa: E402


class Outcome:
    kind = "?"
    legal = False

    def __repr__(self):
        return "<%s %s>" % (self.kind, getattr(self, "detail", ""))


class Accepted(Outcome):
    kind = "accepted"
    legal = True

    def __init__(self, dctx, header=None, source=None, name="p"):
        self.dctx = dctx
        self.header = header
        self.source = source
        self.name = name
        self.detail = ""


class SyntaxErr(Outcome):
    kind = "syntax"
    legal = True

    def __init__(self, detail):
        self.detail = detail


class Diagnosed(Outcome):
    kind = "diagnosed"
    legal = True

    def __init__(self, phase, cls, message):
        self.phase = phase
        self.cls = cls
        self.message = message
        self.detail = "%s:%s" % (phase, cls)


class ArgError(Outcome):
    kind = "argerror"
    legal = True

    def __init__(self, message):
        self.message = message
        self.detail = message


class Internal(Outcome):
    kind = "internal"
    legal = False

    def __init__(self, phase, exc, tb):
        self.phase = phase
        self.cls = type(exc).__name__
        try:
            self.message = str(exc)[:300]
        except Exception as e2:  # noqa: BLE001 - an exception whose message cannot be rendered
            self.message = "<message cannot be rendered: %s>" % type(e2).__name__
        self.tb = tb
        self.detail = "%s:%s:%s" % (phase, self.cls, self.message[:80])
        # innermost nmfu.py frame: stable root-cause key
        self.where = "?"
        for fr in reversed(traceback.extract_tb(exc.__traceback__)):
            if fr.filename.endswith("nmfu.py"):
                self.where = "%s" % (fr.name,)
                self.lineno = fr.lineno
                break


class Timeout(Outcome):
    kind = "timeout"
    legal = False

    def __init__(self, phase):
        self.phase = phase
        self.detail = phase


class _Alarm(BaseException):
    pass


def _on_alarm(signum, frame):
    raise _Alarm()


def compile_source(src, argv=(), name="p", codegen=True, timeout=20, phases=None):
    """Run load_commandline_flags -> load_source -> parse -> ParseCtx -> DfaCompileCtx -> CodegenCtx.

    argv: the option words (the file name `<name>.nmfu` is appended).  Returns an Outcome.
    """
    phase = "args"
    old = signal.signal(signal.SIGALRM, _on_alarm)
    outer_left = signal.alarm(timeout)   # an enclosing per-item alarm (framework.pmap) is re-armed afterwards
    try:
        try:
            _, pname = N.ProgramData.load_commandline_flags([*argv, name + ".nmfu"])
        except RuntimeError as e:
            return ArgError(str(e))
        phase = "syntax"
        N.ProgramData.load_source(src)
        try:
            tree = N.parser.parse(src, start="start")
        except lark.LarkError as e:
            return SyntaxErr(type(e).__name__)
        phase = "parse"
        try:
            pctx = N.ParseCtx(tree)
            pctx.parse()
        except N.NMFUError as e:
            msg = str(e)  # rendering the message is part of the contract
            return Diagnosed("parse", type(e).__name__, msg)
        phase = "compile"
        try:
            dctx = N.DfaCompileCtx(pctx)
            dctx.compile()
        except N.NMFUError as e:
            msg = str(e)
            return Diagnosed("compile", type(e).__name__, msg)
        if not codegen:
            return Accepted(dctx, None, None, pname)
        phase = "codegen"
        try:
            cctx = N.CodegenCtx(dctx, pname)
            header = cctx.generate_header()
            source = cctx.generate_source()
        except N.NMFUError as e:
            msg = str(e)
            return Diagnosed("codegen", type(e).__name__, msg)
        return Accepted(dctx, header, source, pname)
    except _Alarm:
        return Timeout(phase)
    except RecursionError as e:
        return Internal(phase, e, "RecursionError")
    except Exception as e:  # noqa: BLE001 - classification is the point
        return Internal(phase, e, traceback.format_exc())
    finally:
        signal.alarm(0)
        signal.signal(signal.SIGALRM, old)
        if outer_left:
            signal.alarm(outer_left)


def corpus_files():
    import glob
    ok = sorted(glob.glob(os.path.join(REPO, "example/test/*.ok.nmfu")))
    ex = sorted(glob.glob(os.path.join(REPO, "example/*.nmfu")))
    return ok + ex


def file_args(src):
    import shlex
    lines = src.splitlines()
    if lines and lines[0].startswith("// args: "):
        return shlex.split(lines[0][len("// args: "):])
    return []


def flag(name):
    return N.ProgramData.do(N.ProgramFlag[name])


def compile_cli(src, argv=(), name="p", timeout=120):
    """the real command line: `python $REPO/nmfu.py <argv> <name>.nmfu` in a fresh directory (source written as bytes, latin-1).
    -> (exit code, header text or None, source text or None, stderr tail).  Used to bind compile_source() to what main() really does."""
    import subprocess, tempfile, shutil
    d = tempfile.mkdtemp(prefix="nvcli", dir=os.environ.get("NV_SCRATCH", "/dev/shm") if os.path.isdir(os.environ.get("NV_SCRATCH", "/dev/shm")) else None)
    try:
        fn = os.path.join(d, name + ".nmfu")
        with open(fn, "wb") as f:
            f.write(src.encode("utf-8"))
        env = dict(os.environ)
        env["PYTHONHASHSEED"] = "0"
        try:
            r = subprocess.run([sys.executable, os.path.join(REPO, "nmfu.py"), *argv, fn], cwd=d, capture_output=True, text=True, timeout=timeout, env=env)
        except subprocess.TimeoutExpired:
            return (-9, None, None, "timeout")
        outs = {}
        for ext in ("h", "c"):
            fo = [x for x in os.listdir(d) if x.endswith("." + ext)]
            outs[ext] = open(os.path.join(d, fo[0]), encoding="utf-8", errors="surrogateescape").read() if len(fo) == 1 else None
        text = r.stdout + r.stderr
        tail = text[-400:]
        if "Traceback (most recent call last)" in text and "Traceback" not in tail:
            tail = "Traceback ... " + tail[-380:]
        return (r.returncode, outs["h"], outs["c"], tail)
    finally:
        shutil.rmtree(d, ignore_errors=True)
