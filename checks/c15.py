"""C15 - literals denote exactly the bytes and values they spell.

Exhaustive over single bytes: every byte value 0..255 x every legal spelling (raw printable character, \\xHH in both
hex cases, named escapes, hex pairs of binary strings, regex literal / escaped metacharacter / class escape / set
member / range endpoint, binary-regex byte / set / range) x every context: match contexts (string, case-insensitive,
binary string, text regex, binary regex) are decided on the compiled machine - all 256 candidate bytes are offered
at the position of the literal and exactly the spelled byte (either case for letters in the case-insensitive form)
may be accepted; store contexts (string assignment, string default, binary default) and value contexts (char
constants, integer literals dec/0x/0b with sign, as statement, default and inside math) are observed through the C
binary.  Multi-byte neighbours: all ordered pairs over an adversarial byte set in match, assignment and default.
"""
import itertools
import re
import json
from nv.framework import Check, pmap, sha, harness_fail
from nv import loader, cbuild
from nv.am import AM, UB, Spin

NAMED = {0x0a: "\\n", 0x0d: "\\r", 0x09: "\\t", 0x08: "\\b", 0x00: "\\0", 0x22: '\\"', 0x5c: "\\\\"}
RX_META = set(b".*()[]\\+{}|/")      # the metacharacters that have an escaped spelling in the documented grammar (`?` has none outside a set)
ADV = [0x00, 0x22, 0x5c, 0x27, 0x2f, 0x30, 0x39, 0x41, 0x46, 0x61, 0x66, 0x67, 0x7f, 0x80, 0xff, 0x0a, 0x20, 0x5d, 0x2d, 0x5e, 0x78, 0x62, 0x69, 0xc3]


def str_spellings(b):
    out = ["\\x%02x" % b, "\\x%02X" % b]
    if b in NAMED:
        out.append(NAMED[b])
    if 32 <= b < 127 and b not in (0x22, 0x5c):
        out.append(chr(b))
    return out


def rx_spellings(b):
    """text-regex spellings of a single byte (outside sets)"""
    out = []
    c = chr(b)
    if 33 <= b < 127 and b not in RX_META and c != "?":
        out.append(c)
    if b in RX_META:
        out.append("\\" + c)
    if b == 0x20:
        out.append("\\ ")
    if b == 0x0a:
        out.append("\\n")
    if b == 0x09:
        out.append("\\t")
    if b == 0x0d:
        out.append("\\r")
    return out


def set_spellings(b):
    c = chr(b)
    out = []
    if 33 <= b < 127 and c not in "-]\\/":
        out.append("[%s]" % c)
        if 34 <= b < 126 and chr(b - 1) not in "-]\\/ " and chr(b + 1) not in "-]\\/":
            out.append("[%s-%s]" % (c, c))
    if c in "-]\\/":
        out.append("[\\%s]" % c)
    return out


# ------------------------------------------------------------------------------------------------------------ match contexts (AM)

def accepted_first_bytes(src, argv=()):
    """set of bytes c such that the machine consumes c as the first byte of the parse (OK or DONE), or None if rejected"""
    acc = loader.compile_source(src, list(argv), codegen=False)
    if acc.kind != "accepted":
        return None, acc
    am = AM(acc.dctx)
    ok = set()
    for c in range(256):
        cfg, code, ev = am.start()
        code, adv, ev = am.feed_byte(cfg, c)
        if code in ("OK", "DONE"):
            ok.add(c)
    return ok, acc


def match_case(item):
    kind, b, spelling, src, want = item
    got, acc = accepted_first_bytes(src)
    if got is None:
        if acc.kind in ("internal", "timeout"):
            return dict(n=1, problem="compiler %s on %s" % (acc.kind, src), src=src)
        return dict(n=1, problem="legal spelling %s of byte 0x%02x is rejected in context %s: %s" % (spelling, b, kind, acc.detail), src=src)
    if got != set(want):
        return dict(n=256, problem="%s: literal spelled %s (byte 0x%02x) accepts %s, expected %s" % (kind, spelling, b, fmt(got), fmt(want)), src=src)
    return dict(n=256, problem=None)


def fmt(s):
    s = sorted(s)
    return "{" + ",".join("0x%02x" % x for x in s[:6]) + ("..." if len(s) > 6 else "") + "}"


def casei_set(b):
    c = chr(b)
    if c.isascii() and c.isalpha():
        return {ord(c.lower()), ord(c.upper())}
    return {b}


def match_items():
    items = []
    for b in range(256):
        for sp in str_spellings(b):
            items.append(("string match", b, sp, 'parser { "%s"; }' % sp, {b}))
            items.append(("case-insensitive match", b, sp, 'parser { "%s"i; }' % sp, casei_set(b)))
        for sp in ("%02x" % b, "%02X" % b):
            items.append(("binary string match", b, sp, 'parser { "%s"b; }' % sp, {b}))
            items.append(("binary regex", b, sp, "parser { b/%s/; }" % sp, {b}))
            items.append(("binary regex set", b, sp, "parser { b/[%s]/; }" % sp, {b}))
            items.append(("binary regex range", b, sp, "parser { b/[%s-%s]/; }" % (sp, sp), {b}))
            items.append(("binary regex inverted set", b, sp, "parser { b/[^%s]/; }" % sp, set(range(256)) - {b}))
        for sp in rx_spellings(b):
            items.append(("regex literal", b, sp, "parser { /%s/; }" % sp, {b}))
        for sp in set_spellings(b):
            items.append(("regex set", b, sp, "parser { /%s/; }" % sp, {b}))
    # ranges with adversarial endpoints
    for lo, hi in [(0x30, 0x39), (0x41, 0x5a), (0x61, 0x7a), (0x21, 0x2c), (0x3a, 0x40), (0x7b, 0x7e)]:
        items.append(("regex range", lo, "[%s-%s]" % (chr(lo), chr(hi)), "parser { /[%s-%s]/; }" % (chr(lo), chr(hi)), set(range(lo, hi + 1))))
    for lo, hi in [(0x00, 0x00), (0x00, 0xff), (0x7f, 0x80), (0xfe, 0xff), (0x10, 0x1f)]:
        items.append(("binary regex range", lo, "[%02x-%02x]" % (lo, hi), "parser { b/[%02x-%02x]/; }" % (lo, hi), set(range(lo, hi + 1))))
    return items


def pair_case(item):
    """two-byte literal x y in a match: after x exactly y is accepted; first byte exactly x"""
    kind, x, y, src = item
    acc = loader.compile_source(src, [], codegen=False)
    if acc.kind != "accepted":
        return dict(n=1, problem="two-byte literal %02x %02x rejected in %s: %s %s" % (x, y, kind, acc.kind, acc.detail), src=src)
    am = AM(acc.dctx)
    n = 0
    for c in range(256):
        cfg, code, ev = am.start()
        code, adv, ev = am.feed_byte(cfg, c)
        n += 1
        if (code in ("OK", "DONE")) != (c == x):
            return dict(n=n, problem="%s %02x %02x: first byte 0x%02x gives %s" % (kind, x, y, c, code), src=src)
    for c in range(256):
        cfg, code, ev = am.start()
        am.feed_byte(cfg, x)
        code, adv, ev = am.feed_byte(cfg, c)
        n += 1
        if (code == "DONE") != (c == y):
            return dict(n=n, problem="%s %02x %02x: second byte 0x%02x gives %s" % (kind, x, y, c, code), src=src)
    return dict(n=n, problem=None)


def canon(b):
    sp = str_spellings(b)
    return sp[-1] if len(sp) > 2 else sp[0]


# ------------------------------------------------------------------------------------------------------------ store / value contexts (C)

def store_program(which, form):
    """one program with 256 clauses: selector byte spelled as binary string, payload in the notation under test"""
    if which == "assign":
        clauses = []
        for b in range(256):
            sp = form(b)
            if sp is None:
                continue
            clauses.append('    "%02x"b -> { s = "%s"; }' % (b, sp))
        return 'out str[4] s;\nparser {\n  case {\n%s\n  }\n}\n' % "\n".join(clauses), None
    if which == "default":
        decl = []
        for b in range(256):
            sp = form(b)
            if sp is None:
                continue
            decl.append('out str[3] s%d = "%s";' % (b, sp))
        return "\n".join(decl) + '\nparser { "a"; }\n', None
    if which == "bdefault":
        decl = ['out str[3] s%d = "%02x"b;' % (b, b) for b in range(256)]
        return "\n".join(decl) + '\nparser { "a"; }\n', None
    if which == "charconst":
        decl = []
        body = []
        for b in range(256):
            sp = form(b)
            if sp is None:
                continue
            decl.append("out int{unsigned, size 2} r%d = 0;" % b)
            body.append("  r%d = %s;" % (b, sp))
            decl.append("out int{unsigned, size 2} m%d = 0;" % b)
            body.append("  m%d = [%s + 256];" % (b, sp))
        return "\n".join(decl) + '\nparser {\n  "x";\n%s\n  "x";\n}\n' % "\n".join(body), None


def char_spelling(b):
    c = chr(b)
    if c == "'":
        return "'\\''"
    if c == "\\":
        return "'\\\\'"
    if b == 0:
        return "'\\0'"
    if b == 0x0a:
        return "'\\n'"
    if b == 0x0d:
        return "'\\r'"
    if b == 0x09:
        return "'\\t'"
    if b == 0x08:
        return "'\\b'"
    if 32 <= b < 127:
        return "'%s'" % c
    return None


def store_case(item):
    which, formname = item
    forms = {"hexlower": lambda b: "\\x%02x" % b, "hexupper": lambda b: "\\x%02X" % b, "named": lambda b: NAMED.get(b),
             "raw": lambda b: chr(b) if (32 <= b < 127 and b not in (0x22, 0x5c)) else None, "char": char_spelling, "bin": lambda b: "%02x" % b}
    form = forms[formname]
    src, _ = store_program(which, form)
    acc = loader.compile_source(src, [])
    res = dict(n=0, problems=[], src=src, which=which, form=formname)
    if acc.kind != "accepted":
        res["problems"].append("%s/%s program is %s: %s %s" % (which, formname, acc.kind, acc.detail, getattr(acc, "message", "")[:200]))
        return res
    try:
        cp = cbuild.CProg(acc, "asan")
    except cbuild.BuildError as e:
        res["problems"].append("emitted C does not build: %s" % str(e)[:300])
        return res
    with cp:
        if which == "assign":
            ops = b""
            bs = [b for b in range(256) if form(b) is not None]
            for b in bs:
                ops += cp.op_zero() + cp.op_start() + cp.op_feed(bytes([b])) + cp.op_snap()
            recs, status = cp.run(ops, timeout=120)
            if status != "ok":
                res["problems"].append("C run ended with %s: %s" % (status, next((l for l in cp.stderr.splitlines() if "ERROR" in l or "runtime error" in l), cp.stderr[-200:])))
                return res
            snaps = [r for r in recs if r[0] == "N"]
            for b, sn in zip(bs, snaps):
                res["n"] += 1
                got = sn[2]["s"]
                if got != bytes([b]):
                    res["problems"].append("assignment of \"%s\" stores %r (length %d), expected the single byte 0x%02x" % (form(b), got, len(got or b""), b))
        elif which in ("default", "bdefault"):
            recs, status = cp.run(cp.op_zero() + cp.op_start() + cp.op_snap(), timeout=60)
            if status != "ok":
                res["problems"].append("C run ended with %s: %s" % (status, next((l for l in cp.stderr.splitlines() if "ERROR" in l or "runtime error" in l), cp.stderr[-200:])))
                return res
            d = recs[-1][2]
            for b in range(256):
                if "s%d" % b in d:
                    res["n"] += 1
                    if d["s%d" % b] != bytes([b]):
                        res["problems"].append("default spelled %s holds %r, expected the single byte 0x%02x" % (form(b) if which == "default" else "%02x" % b, d["s%d" % b], b))
        else:
            recs, status = cp.run(cp.op_zero() + cp.op_start() + cp.op_feed(b"xx") + cp.op_snap(), timeout=60)
            if status != "ok":
                res["problems"].append("C run ended with %s" % status)
                return res
            d = recs[-1][2]
            for b in range(256):
                if "r%d" % b in d:
                    res["n"] += 2
                    if d["r%d" % b] != b or d["m%d" % b] != b + 256:
                        res["problems"].append("char constant %s has value %d / %d in math, expected %d" % (form(b), d["r%d" % b], d["m%d" % b] - 256, b))
    res["problems"] = res["problems"][:6]
    return res


def pair_store_case(item):
    """all ordered pairs over ADV as two-byte string assignment and default, canonical spelling"""
    which = item
    pairs = list(itertools.product(ADV, ADV))
    res = dict(n=0, problems=[], which=which, form="pairs")
    if which == "assign":
        # selector = two hex digits index -> case over "NN" literal of the index bytes
        clauses = ['    "%02x %02x"b -> { s = "%s%s"; }' % (i // 256, i % 256, canon(x), canon(y)) for i, (x, y) in enumerate(pairs)]
        src = 'out str[4] s;\nparser {\n  case {\n%s\n  }\n}\n' % "\n".join(clauses)
    else:
        src = "\n".join('out str[4] s%d = "%s%s";' % (i, canon(x), canon(y)) for i, (x, y) in enumerate(pairs)) + '\nparser { "a"; }\n'
    res["src"] = src
    acc = loader.compile_source(src, [], timeout=120)
    if acc.kind != "accepted":
        res["problems"].append("pair %s program is %s: %s" % (which, acc.kind, acc.detail))
        return res
    try:
        cp = cbuild.CProg(acc, "asan")
    except cbuild.BuildError as e:
        res["problems"].append("emitted C does not build: %s" % str(e)[:300])
        return res
    with cp:
        if which == "assign":
            ops = b"".join(cp.op_zero() + cp.op_start() + cp.op_feed(bytes([i // 256, i % 256])) + cp.op_snap() for i in range(len(pairs)))
            recs, status = cp.run(ops, timeout=300)
        else:
            recs, status = cp.run(cp.op_zero() + cp.op_start() + cp.op_snap(), timeout=60)
        if status != "ok":
            res["problems"].append("C run ended with %s: %s" % (status, next((l for l in cp.stderr.splitlines() if "ERROR" in l or "runtime error" in l), cp.stderr[-200:])))
            return res
        snaps = [r for r in recs if r[0] == "N"]
        for i, (x, y) in enumerate(pairs):
            got = snaps[i][2]["s"] if which == "assign" else snaps[-1][2]["s%d" % i]
            res["n"] += 1
            if got != bytes([x, y]):
                res["problems"].append("%s of \"%s%s\" holds %r, expected bytes %02x %02x" % (which, canon(x), canon(y), got, x, y))
    res["problems"] = res["problems"][:6]
    return res


INTS = [0, 1, 7, 9, 10, 127, 128, 255, 256, 32767, 32768, 65535, 65536, 2147483647]


# decimal literals written with leading zeros are still decimal (C would read them as octal, or refuse 08)
LEADING_ZERO = ["010", "0100", "007", "00", "0010", "08", "0255", "000000012"]


def int_case(_):
    decl, body, want = [], [], {}
    k = 0
    for v in INTS + LEADING_ZERO:
        for sign in ("", "-", "+"):
            zero = isinstance(v, str)
            forms = (("dec", v),) if zero else (("dec", str(v)), ("hex", "0x%x" % v), ("hexU", "0x%X" % v), ("bin", "0b" + bin(v)[2:]))
            v = int(v, 10) if zero else v
            for base, txt in forms:
                if base == "bin" and sign:
                    continue      # BIN_NUMBER has no sign in the grammar
                lit = sign + txt
                val = -v if sign == "-" else v
                for ctx in ("stmt", "math", "default"):
                    nm = "r%d" % k
                    k += 1
                    if ctx == "default":
                        decl.append("out int{size 8} %s = %s;" % (nm, lit))
                    else:
                        decl.append("out int{size 8} %s = 99;" % nm)
                        body.append("  %s = %s;" % (nm, lit if ctx == "stmt" else "[%s + 0]" % lit))
                    want[nm] = (val, lit, ctx)
    src = "\n".join(decl) + '\nparser {\n  "x";\n%s\n  "x";\n}\n' % "\n".join(body)
    res = dict(n=0, problems=[], src=src, which="int", form="literals")
    acc = loader.compile_source(src, [], timeout=120)
    if acc.kind != "accepted":
        res["problems"].append("integer literal program is %s: %s %s" % (acc.kind, acc.detail, getattr(acc, "message", "")[:300]))
        return res
    try:
        with cbuild.CProg(acc, "gcc") as cp:
            recs, status = cp.run(cp.op_zero() + cp.op_start() + cp.op_feed(b"xx") + cp.op_snap(), timeout=60)
            if status != "ok":
                res["problems"].append("C run ended with %s" % status)
                return res
            d = recs[-1][2]
            for nm, (val, lit, ctx) in want.items():
                res["n"] += 1
                if d[nm] != val:
                    res["problems"].append("integer literal %s (%s) has value %d, expected %d" % (lit, ctx, d[nm], val))
    except cbuild.BuildError as e:
        res["problems"].append("emitted C does not build: %s" % str(e)[:300])
    res["problems"] = res["problems"][:6]
    return res


def strip_addresses(t):
    # comments quote object reprs: addresses differ from run to run, and the module is called __main__ when run as a script
    return re.sub(r" at 0x[0-9a-f]+", " at 0x", (t or "").replace("<__main__.", "<nmfu."))


CLI_PROGRAMS = [
    # raw control characters inside literals and outside them (indentation); CR LF line ends; a comment with a tab
    ("raw-tab", 'out str[12] s; out int n = 0; hook h;\nparser {\n\t"k\tv";\t// a\ttab\n\ts = "x\t\ty";\n\tn = \'\t\';\n\th();\n\t/a\tb/;\n\t"q\t"i;\n}\n'),
    ("crlf", 'out str[8] s; hook h;\r\nparser {\r\n  "ab";\r\n  s = "c d";\r\n  h();\r\n}\r\n'),
    ("formfeed-vtab", 'out str[8] s; hook h;\nparser {\n  "a\x0bb";\n  s = "\x0c";\n  h();\n}\n'),
    ("no-final-newline", 'out int n = 0;\nparser { "a"; n = 010; "b"; }'),
    ("high-bytes", 'out str[8] s; hook h;\nparser { "\\xe9\\xff"; s = "\\x80"; h(); "caf\\xe9"i; }\n'),
]


def cli_case(item):
    """what the real command line emits for a file is what the in-process pipeline (which every other check uses) emits for the same text"""
    label, src, argv = item
    res = dict(n=1, problems=[], src=src, which="cli", form=label)
    acc = loader.compile_source(src, argv, timeout=120)
    rc, h, c, tail = loader.compile_cli(src, argv)
    if acc.kind == "accepted":
        if rc != 0 or h is None or c is None:
            res["problems"].append("command line exits %s (%s) for a program the pipeline accepts" % (rc, tail.strip()[-200:]))
        elif strip_addresses(h) != strip_addresses(acc.header) or strip_addresses(c) != strip_addresses(acc.source):
            # the text may legitimately differ in state numbering and branch order (set iteration order): compare what the two programs do on every
            # string <= 4 over the bytes the source mentions (whole and byte by byte), hooks and outputs included
            reps = sorted(set(src.encode("utf-8", "replace")[:400]) & set(range(256)) | {0, 9, 32, 255})[:14]
            eof = "-feof-support" in argv
            ds = []
            for hh, cc in ((acc.header, acc.source), (h, c)):
                o = loader.Accepted(acc.dctx, hh, cc, acc.name)
                try:
                    with cbuild.CProg(o, "gcc") as cp:
                        script = cp.op_exhaust(4, reps, do_end=eof, digest=True, no_offsets=True) + cp.op_exhaust(3, reps, do_end=eof, digest=True, bytewise=True, no_offsets=True)
                        recs, status = cp.run(script, timeout=120)
                        ds.append(repr([r[1]["digests"] for r in recs]) if status == "ok" else "run:" + status)
                        res["n"] += sum(len(reps) ** k for k in range(5))
                except cbuild.BuildError as e:
                    ds.append("cbuild_failed: " + str(e)[:200])
            if ds[0] != ds[1]:
                res["problems"].append("command line emits code that behaves differently from the pipeline's on the same text (some string <= 4 over %s): %s" % (bytes(reps), "build/run: %s | %s" % (ds[0][:80], ds[1][:80]) if "cbuild" in ds[0] + ds[1] or "run:" in ds[0] + ds[1] else "trace digests differ"))
    elif acc.kind in ("diagnosed", "syntax", "argerror"):
        if rc == 0:
            res["problems"].append("command line accepts a program the pipeline rejects (%s)" % acc.kind)
        elif "Traceback" in tail:
            res["problems"].append("command line dies with a traceback: %s" % tail.strip()[-200:])
    return res


def dispatch(item):
    k = item[0]
    if k == "cli":
        return cli_case(item[1])
    if k == "match":
        return match_case(item[1])
    if k == "pair":
        return pair_case(item[1])
    if k == "store":
        return store_case(item[1])
    if k == "pairstore":
        return pair_store_case(item[1])
    return int_case(None)


def run(tier, seed):
    ck = Check("C15", tier, seed, "exploration",
               rule="every byte 0..255 x every legal spelling x every context; all 256 candidate bytes offered at each literal position (match contexts, on the compiled machine); store and value contexts observed through an ASan build of the C; "
                    "all ordered pairs over a 24-byte adversarial set; distinct = (context, spelling family) cells with at least one byte; evaluations = single observations")
    items = [("match", m) for m in match_items()]
    adv = ADV if tier == "thorough" else ADV[:14]
    for x, y in itertools.product(adv, adv):
        items.append(("pair", ("string match", x, y, 'parser { "%s%s"; }' % (canon(x), canon(y)))))
        items.append(("pair", ("binary string match", x, y, 'parser { "%02x%02x"b; }' % (x, y))))
    for which, forms in (("assign", ["hexlower", "hexupper", "named", "raw"]), ("default", ["hexlower", "hexupper", "named", "raw"]), ("bdefault", ["bin"]), ("charconst", ["char"])):
        for f in forms:
            items.append(("store", (which, f)))
    items.append(("pairstore", "assign"))
    items.append(("pairstore", "default"))
    items.append(("int", None))
    from nv import progs
    for label, src in CLI_PROGRAMS:
        for argv in ([], ["-O3"], ["-O0", "-fstrings-as-u8"]):
            items.append(("cli", (label, src, argv)))
    for p_ in progs.features():
        items.append(("cli", (p_["label"], p_["src"], p_["argv"])))
    items.sort(key=lambda it: 0 if it[0] in ("store", "pairstore", "int") else 1)      # the heavy (C build) items first
    stats = dict(items=len(items))
    for idx, r in pmap(dispatch, items, timeout=900, chunksize=4, stop=ck.enough):
        if "harness_error" in r or "harness_timeout" in r:
            harness_fail("%s on item %d %r" % (r, idx, items[idx][0]))
        kind = items[idx][0]
        ck.add(evaluations=max(r["n"], 1))
        if kind == "match":
            ck.note((items[idx][1][0], len(items[idx][1][2])))
            if r["problem"]:
                b = items[idx][1][1]
                ck.violation("C15:match:%s:%s" % (items[idx][1][0], items[idx][1][2]), r["problem"], dict(kind="match", item=repr(items[idx][1])))
        elif kind == "pair":
            ck.note(("pair", items[idx][1][0]))
            if r["problem"]:
                ck.violation("C15:pair:%s:%02x%02x" % (items[idx][1][0], items[idx][1][1], items[idx][1][2]), r["problem"], dict(kind="pair", item=repr(items[idx][1])))
        else:
            ck.note((r.get("which"), r.get("form")))
            for p in r["problems"]:
                ck.violation("C15:%s:%s:%s" % (r.get("which"), r.get("form"), p[:50]), p, dict(kind=kind, item=repr(items[idx][1])))
        if idx % 701 == 0 and kind == "match":
            ck.sample(dict(context=items[idx][1][0], byte=items[idx][1][1], spelling=items[idx][1][2], source=items[idx][1][3]))
    ck.extra.update(stats)
    ck.exhaustive = True
    ck.assumptions += ["legal spellings: printable ASCII except \\\" and \\\\ raw; \\\\xHH with two hex digits of either case; the named escapes of the reference; raw non-ASCII source characters are not used",
                       "single bytes are exhaustive (256 values x spellings x contexts); multi-byte neighbours are all ordered pairs over a 24-byte (quick: 14) adversarial set"]
    return ck.finish()


def replay(path):
    d = json.load(open(path))
    it = eval(d["item"]) if d.get("item") not in (None, "None") else None
    r = dispatch((d["kind"], it))
    probs = [r["problem"]] if "problem" in r else r["problems"]
    probs = [p for p in probs if p]
    for p in probs:
        print(p)
    print("REPRODUCED" if probs else "not reproduced")
    return 1 if probs else 0
