"""C08 - a case statement runs exactly the clause whose pattern matched.

All sets of 2..4 clauses over a 14-pattern menu (several patterns per clause, else alone or with a body that
starts with a match, empty bodies, greedy with priorities, greedy inside a yielding loop = lexer shape) are
printed and compiled; for every accepted set the reachable states of (abstract machine x parallel product of
the per-pattern derivative automata) are explored to a fixpoint.  The finish / yield code observed identifies
the clause that ran; it must be the clause whose pattern equals the consumed bytes (highest priority for
greedy), else / FAIL exactly when no pattern is live, with the else body starting at the offending byte.
"""
import itertools
import json
from collections import deque
from nv.framework import Check, pmap, sha, harness_fail
from nv import loader, conform, cbuild, bisim, deriv as D, universe as U
from nv.am import AM, UB, Spin, END

L = U.lit
RX = U.RX_ATOMS
q = U.q
PATS = [
    L("a"), L("ab"), L("abc"), L("b"), L("ba"), ("liti", b"ab"), ("re", q("a", "+")), ("re", ("seq", (RX["a"], q("b", "*")))),
    ("re", ("seq", (RX["[ab]"], RX["c"]))), ("re", ("seq", (q("b", "+"), q("c", "?")))), ("re", q("\\d", "+")), ("re", RX["[^ab]"]),
    L("c"), ("re", ("seq", (q("a", "*"), RX["c"]))),
]
NCODES = 5
DECL = ["finishcode C0, C1, C2, C3, C4, D;"]
YDECL = ["yieldcode Y1, Y2, Y3, Y4;"]


def build(clauses, variant, greedy, prios):
    """clauses: tuple of tuples of patterns.  -> (stmts, extra decls, argv, info)"""
    cl = []
    for i, pats in enumerate(clauses):
        code = "C%d" % (i + 1)
        pr = prios[i] if (greedy and prios) else None
        if variant == "lexer":
            body = (("yield", "Y%d" % (i + 1)),)
        elif variant == "empty1" and i == 0:
            body = ()
        elif variant in ("mixbody", "mixelse") and i % 2 == 1:
            body = (("match", L("x")), ("finish", code))
        else:
            body = (("finish", code),)
        cl.append((pr, tuple(pats), body))
    if variant in ("else", "mixelse"):
        cl.append((None, ("else",), (("finish", "C0"),)))
    elif variant == "elsex":
        cl.append((None, ("else",), (("match", L("x")), ("finish", "C0"))))
    elif variant == "elsepat":
        # else combined with a pattern in one clause
        cl[-1] = (cl[-1][0], cl[-1][1] + ("else",), cl[-1][2])
    case = ("case", greedy, tuple(cl))
    if variant == "lexer":
        return (("loop", None, (case,)),), YDECL, ["-fyield-support"]
    if variant == "empty1":
        return (case, ("finish", "D")), DECL, []
    return (case,), DECL, []


def check_item(item):
    clauses, variant, greedy, prios, want_c = item
    stmts, decls, argv = build(clauses, variant, greedy, prios)
    src = U.source(stmts, extra_decls=decls)
    res = dict(src=src, argv=argv, status="ok", states=0, trans=0, problem=None, path=None, creplay=0, shapes=set(), ambiguous=0)
    acc = loader.compile_source(src, argv, codegen=want_c)
    if acc.kind != "accepted":
        res["status"] = acc.kind
        res["detail"] = acc.detail
        res["shapes"] = []
        return res
    am = AM(acc.dctx)
    cores = []
    owner = []
    prio_of = []
    for i, pats in enumerate(clauses):
        for p in pats:
            cores.append(U.m_core(p))
            owner.append(i)
            prio_of.append(((prios[i] or 0) if (greedy and prios) else 0))
    has_else = variant in ("else", "elsex", "elsepat", "mixelse")
    else_owner = len(clauses) - 1 if variant == "elsepat" else None
    reps = U.reps_of(stmts)
    # a case-insensitive literal folds ASCII letters only: the byte 0x20 away from each of its high bytes must behave like any other byte
    extra = set()
    for pats in clauses:
        for pt in pats:
            if isinstance(pt, tuple) and pt and pt[0] == "liti":
                extra |= {b ^ 0x20 for b in pt[1] if b >= 0x80}
    reps = sorted(set(reps) | extra)
    dfas = [D.Dfa(r, reps) for r in cores]
    Q0 = tuple(cores)
    lexer = variant == "lexer"

    def code_of(i):
        if lexer:
            return ("yield", "Y%d" % (i + 1))
        if variant == "empty1" and i == 0:
            return ("finish", "D")
        return ("finish", "C%d" % (i + 1))

    def xbody(i):
        return variant in ("mixbody", "mixelse") and i % 2 == 1

    def alive(Q, c):
        return [j for j in range(len(Q)) if Q[j] is not None and not dfas[j].dead(D.deriv(Q[j], c))]

    def closed(Q):
        """some pattern matched and nothing can continue"""
        return all(Q[j] is None or all(dfas[j].dead(D.deriv(Q[j], c)) for c in reps) for j in range(len(Q)))

    def winner(Q):
        """clause selected among the patterns matching what was consumed: (clause index | None, tie?)"""
        nul = [j for j in range(len(Q)) if Q[j] is not None and D.nullable(Q[j])]
        if not nul:
            return None, False
        if greedy:
            top = max(prio_of[j] for j in nul)
            cands = sorted(set(owner[j] for j in nul if prio_of[j] == top))
        else:
            cands = sorted(set(owner[j] for j in nul))
        return cands[0], len(cands) > 1

    cfg0, code0, _ = am.start()
    # oracle: ("case", Q, consumed_any) | ("pend", expected event) | ("elsex",) expecting 'x' | ("pendfin", code) after x
    init = (am.key(cfg0), ("case", Q0, False))
    seen = {init: b""}
    front = deque([init])

    def bad(why, path):
        res["problem"] = why
        res["path"] = path.hex()
        res["shapes"] = sorted(map(repr, res["shapes"]))
        return res

    def split(ev):
        pre, post, seenc = [], [], False
        for e in ev:
            k = e[0][0]
            if k == "C":
                seenc = True
            elif k in ("yield", "finish"):
                (post if seenc else pre).append((k, e[0][1]))
        return pre, post, seenc

    while front:
        key = front.popleft()
        (si, data), ost = key
        path = seen[key]
        res["states"] += 1
        if res["states"] > 5000:
            res["status"] = "capped"
            break
        for c in reps:
            cfg = am.mkcfg(si, dict(data))
            res["trans"] += 1
            p2 = path + bytes([c])
            try:
                code, ev = bisim.step_sym(am, cfg, c, 0)
            except UB:
                continue
            except Spin as e:
                return bad("machine never returns: %s" % e, p2)
            pre, post, seenc = split(ev)
            res["shapes"].add((ost[0], code, len(pre), len(post)))
            exp_pre = []
            st = ost
            nxt = None
            terminal = None     # expected terminal code for this step
            verdict = None
            # -------- phase 1: things due before this byte is consumed
            if st[0] == "pend":
                exp_pre.append(st[1])
                if st[1][0] == "finish":
                    terminal = st[1]
                else:
                    st = ("case", Q0, False)
            if terminal is None and st[0] == "pendfin":
                exp_pre.append(st[1])
                terminal = st[1]
            if terminal is None and st[0] == "elsex":
                if c == ord("x"):
                    verdict = ("consume", ("pendfin", st[1]), [st[1]])
                else:
                    verdict = ("fail",)
            if terminal is None and verdict is None:
                Q = st[1]
                lv = alive(Q, c)
                if not lv:
                    w, tie = winner(Q)
                    if w is not None and st[2]:
                        if tie:
                            return bad("accepted although two clauses of equal standing match %r" % path, p2)
                        ce = code_of(w)
                        if xbody(w):
                            # the clause body starts with a match: it starts at this byte
                            if c == ord("x"):
                                verdict = ("consume", ("pendfin", ce), [ce])
                            else:
                                verdict = ("fail",)
                        else:
                            exp_pre.append(ce)
                        if xbody(w):
                            pass
                        elif ce[0] == "finish":
                            terminal = ce
                        else:
                            # lexer: restart the case on the same byte
                            Q = Q0
                            lv = alive(Q, c)
                            if not lv:
                                verdict = ("fail",)
                    else:
                        # no clause pattern equals the consumed bytes: else at the offending byte, or no-match
                        if has_else and variant in ("else", "mixelse"):
                            exp_pre.append(("finish", "C0"))
                            terminal = ("finish", "C0")
                        elif has_else and variant == "elsepat":
                            ce = code_of(else_owner)
                            exp_pre.append(ce)
                            terminal = ce
                        elif has_else and variant == "elsex":
                            if c == ord("x"):
                                verdict = ("consume", ("pendfin", ("finish", "C0")), [("finish", "C0")])
                            else:
                                verdict = ("fail",)
                        else:
                            verdict = ("fail",)
                if terminal is None and verdict is None:
                    if not greedy:
                        nul_live = [j for j in range(len(Q)) if Q[j] is not None and D.nullable(Q[j])]
                        if nul_live and st[2]:
                            res["ambiguous"] += 1      # one clause complete while another continues: C09's subject; not judged here
                            continue
                    Q2 = tuple(D.deriv(Q[j], c) if j in lv else None for j in range(len(Q)))
                    if closed(Q2):
                        w, tie = winner(Q2)
                        if w is None:
                            # cannot happen: closed with nothing nullable means all dead
                            verdict = ("consume", ("case", Q2, True), [])
                        else:
                            if tie:
                                return bad("accepted although two clauses of equal standing match %r" % p2, p2)
                            if xbody(w):
                                verdict = ("consume", ("elsex", code_of(w)), [])
                            else:
                                verdict = ("consume", ("pend", code_of(w)), [code_of(w)])
                    else:
                        verdict = ("consume", ("case", Q2, True), [])
            # -------- compare
            if pre[:len(exp_pre)] != exp_pre:
                return bad("expected %s before consuming byte %r, machine did %s (result %s)" % (exp_pre, bytes([c]), pre, code), p2)
            if terminal is not None:
                want = "FINISH_" + terminal[1]
                if code != want or seenc or len(pre) != len(exp_pre):
                    return bad("expected %s without consuming %r, machine: %s%s" % (want, bytes([c]), code, " after consuming" if seenc else ""), p2)
                continue
            if len(pre) != len(exp_pre):
                return bad("unexpected %s before consuming %r" % (pre[len(exp_pre):], bytes([c])), p2)
            if verdict[0] == "fail":
                if code != "FAIL":
                    return bad("no clause can take %r here: expected FAIL, machine returned %s" % (bytes([c]), code), p2)
                continue
            _, nst, may_post = verdict
            if code == "FAIL":
                return bad("machine fails at %r although a clause pattern can continue" % p2, p2)
            if not seenc:
                return bad("byte %r should have been consumed (result %s)" % (bytes([c]), code), p2)
            if post:
                if post != may_post:
                    return bad("after consuming %r machine did %s, expected %s" % (bytes([c]), post, may_post or "nothing"), p2)
                if post[0][0] == "finish":
                    if code != "FINISH_" + post[0][1]:
                        return bad("finish event without finish code (%s)" % code, p2)
                    continue
                nst = ("case", Q0, False)
            if code != "OK":
                return bad("unexpected result %s at %r" % (code, p2), p2)
            k2 = (am.key(cfg), nst)
            if k2 not in seen:
                seen[k2] = p2
                front.append(k2)
    res["shapes"] = sorted(map(repr, res["shapes"]))
    if want_c and res["status"] == "ok":
        try:
            with cbuild.CProg(acc, "gcc0") as cp:
                for k, path in list(seen.items())[:50]:
                    prob, n = conform.replay_input(cp, am, path, end=False)
                    res["creplay"] += 1
                    if prob:
                        return bad("C replay: " + prob, path)
        except cbuild.BuildError as e:
            res["cbuild_failed"] = 1
    return res


def items_for(tier, seed):
    items = []
    idx = list(range(len(PATS)))
    sets = [tuple((PATS[i],) for i in c) for c in itertools.combinations(idx, 2)]
    three = [tuple((PATS[i],) for i in c) for c in itertools.combinations(idx, 3)]
    if tier == "quick":
        three = [s for k, s in enumerate(three) if k % 3 == seed % 3]
        four = []
    else:
        four = [tuple((PATS[i],) for i in c) for c in itertools.combinations(idx, 4)]
    multi = [((PATS[a], PATS[b]), (PATS[c],)) for a, b in itertools.combinations(idx[:9], 2) for c in idx[:9] if c not in (a, b)]
    if tier == "quick":
        multi = multi[seed % 4::4]
    # case-insensitive literals with letters outside ASCII next to their "other case" spelled exactly
    high = [((("liti", b"a\xe9"),),), ((("liti", b"\xe9b"),), (L("c"),)), ((("liti", b"a\xe9"),), (L(b"a\xc9x"),)), ((("liti", b"\xdfa"),), (("liti", b"b\xff"),))]
    allsets = sets + three + four + multi + high
    for s in allsets:
        n = len(s)
        for variant in ("plain", "else", "elsex", "empty1", "elsepat", "mixbody", "mixelse"):
            items.append((s, variant, False, None))
        for pr in (None, tuple(range(1, n + 1)), tuple(reversed(range(1, n + 1)))):
            for variant in ("plain", "else", "lexer", "mixbody", "mixelse") + (("empty1",) if pr is not None else ()):
                items.append((s, variant, True, pr))
        # annotated and un-annotated clauses mixed (an un-annotated clause has priority 0 wherever it stands)
        mixed = [tuple(range(n - 1, 0, -1)) + (None,), (None,) + tuple(range(1, n)), tuple((None if k % 2 else 3 - k // 2) for k in range(n))]
        for pr in mixed:
            for variant in ("plain", "lexer"):
                items.append((s, variant, True, pr))
    return [(a, b, c, d, (i % (9 if tier == "quick" else 6)) == seed % (9 if tier == "quick" else 6)) for i, (a, b, c, d) in enumerate(items)]


def ref_items(tier, seed):
    """clause bodies that only assign (not timing-strict, so ties decided by priority are accepted): which clause ran is read from the data at
    the hook after the next match; decided jointly with the reference interpreter, which implements the documented greedy/priority selection"""
    idx = list(range(len(PATS)))
    out = []
    k = 0
    for n in (2, 3):
        for combo in itertools.combinations(idx, n):
            k += 1
            if tier == "quick" and n == 3 and k % 4 != seed % 4:
                continue
            for pr in (tuple(range(n, 0, -1)), tuple(range(1, n + 1)), (None,) * (n - 1) + (1,), (1,) + (None,) * (n - 1)):
                cl = tuple((pr[i], (PATS[c],), (("set", "m", ("num", i + 1)),)) for i, c in enumerate(combo))
                for tail in ((("match", L("!")), ("hook", "h")), ()):
                    for els in ((), ((None, ("else",), (("set", "m", ("num", 9)), ("match", ("re", RX["."])))),)):
                        out.append(("ref", (("case", True, cl + els),) + tail + (("hook", "g"),), "REFCASE#%d" % len(out)))
    return out


def check_ref(item):
    from checks import c01
    _, ast, label = item
    r = c01.check_program(dict(ast=ast, label=label, want_c=False, cap=1500, levels=[[], ["-O3"]]))
    prob = r["problems"][0] if r["problems"] else None
    return dict(src=r["src"], argv=(prob or {}).get("argv", []), status=r["status"] if r["status"] in ("ok", "internal", "timeout") else "rejected", detail=r.get("detail", ""),
                states=r["states"], trans=r["trans"], creplay=0, shapes=sorted(map(repr, r["shapes"])) if not isinstance(r["shapes"], list) else r["shapes"],
                problem=(prob["what"] if prob else None), path=(prob or {}).get("path", ""), ambiguous=0)


def dispatch(item):
    if item[0] == "ref":
        return check_ref(item)
    return check_item(item)


def run(tier, seed):
    ck = Check("C08", tier, seed, "model_checking",
               rule="clause-pattern sets x body variants x greedy/priorities; product of machine and parallel pattern automata to a fixpoint; "
                    "distinct = (program, (oracle phase, result code, #events before, #events after consumption)) pairs")
    items = items_for(tier, seed) + ref_items(tier, seed)
    stats = dict(items=len(items), rejected=0, capped=0, ambiguous_branches_skipped=0)
    for idx, r in pmap(dispatch, items, timeout=300, chunksize=8, stop=ck.enough):
        if "harness_error" in r or "harness_timeout" in r:
            harness_fail("%s on item %d" % (r, idx))
        if r["status"] not in ("ok", "capped"):
            stats["rejected"] += 1
            if r["status"] in ("internal", "timeout"):
                ck.violation("C08:compiler:" + r.get("detail", "")[:50], "compiler %s: %s | %s" % (r["status"], r.get("detail"), r["src"].replace("\n", " ")), dict(src=r["src"], argv=r["argv"], kind="compiler"))
            continue
        if r["status"] == "capped":
            stats["capped"] += 1
            ck.cap("item %d" % idx)
        stats["ambiguous_branches_skipped"] += r["ambiguous"]
        ck.add(programs=1, states=r["states"], transitions=r["trans"], traces_validated_against_impl=r["creplay"], evaluations=1)
        for s in r["shapes"]:
            ck.note((idx, s))
        if idx % 1201 == 0:
            ck.sample(dict(source=r["src"], product_states=r["states"], shapes=r["shapes"][:6]))
        if r["problem"]:
            ck.violation("C08:%s:%s" % (r["problem"].split(" byte ")[0][:40], sha(r["src"])[:10]), "%s | input %s | %s" % (r["problem"], r["path"], r["src"].replace("\n", " ")),
                         dict(src=r["src"], argv=r["argv"], path=r["path"], item=repr(items[idx][:4])) if items[idx][0] != "ref" else
                         dict(src=r["src"], argv=r["argv"], path=r["path"], ref_ast=repr(items[idx][1])))
    ck.extra.update(stats)
    ck.exhaustive = stats["capped"] == 0
    ck.assumptions += ["a clause body consisting of `finish Ci` / `yield Yi` may fire with the byte that completes the pattern or when the next byte arrives (before it is consumed)",
                       "branches in which a non-greedy clause is complete while another clause can continue are C09's subject and are skipped (counted) here"]
    return ck.finish()


def replay(path):
    d = json.load(open(path))
    if d.get("ref_ast"):
        r = check_ref(("ref", eval(d["ref_ast"]), "replay"))
    else:
        it = eval(d["item"])
        r = check_item(tuple(it) + (True,))
    print(r["problem"], r["path"])
    print("REPRODUCED" if r["problem"] else "not reproduced")
    return 1 if r["problem"] else 0
