"""C19 - command-line options resolve to a consistent configuration.

Deciding step: exhaustive enumeration of (a) all 3^11 x 4 absent/on/off assignments of the 11 flags that
carry implies/exclusive metadata x the four -O levels, (b) every ordering of every command line with
<= 4 (quick: <= 3) of those flags, and of the words {file, -oX, -O2, -fA, -fno-B}, (c) every spelling of
every flag, (d) every optimisation flag x level x override, (e) a finite menu of malformed options built
from every proper prefix / corruption of every valid option word.  Oracle: invariants stated by the
property, evaluated by code that reads only the flag *metadata* (implies / exclusive_with / level table),
never the resolver under test.
"""
import itertools
import json
from nv.framework import Check, pmap
from nv import loader
from nv.loader import N

PF = N.ProgramFlag
PD = N.ProgramData
FILE = "x.nmfu"


def fname(f):
    return f.name.lower().replace("_", "-")


def meta_flags():
    rel = set()
    for f in PF:
        if f.implies or f.exclusive_with:
            rel.add(f)
            rel.update(PF(x) for x in f.implies)
            rel.update(PF(x) for x in f.exclusive_with)
    return sorted(rel, key=lambda f: f.value)


def excl(a, b):
    return b.value in a.exclusive_with or a.value in b.exclusive_with


def level_flags(k):
    s = set()
    for j in range(k + 1):
        s.update(PD._OPTIMIZE_LEVELS[j])
    return s


def resolve(argv):
    """run the implementation: ('ok', frozenset(on flags), outname) | ('argerror', msg) | ('crash', cls)"""
    import signal
    signal.signal(signal.SIGALRM, _hang)
    signal.setitimer(signal.ITIMER_REAL, 2.0)
    try:
        fn, out = PD.load_commandline_flags(list(argv))
    except _Hang:
        return ("crash", "option processing does not terminate (2 s)")
    except RuntimeError as e:
        return ("argerror", str(e))
    except SystemExit:
        return ("exit",)
    except Exception as e:  # noqa: BLE001
        return ("crash", type(e).__name__ + ": " + str(e)[:80])
    finally:
        signal.setitimer(signal.ITIMER_REAL, 0)
    return ("ok", frozenset(f for f in PF if PD.do(f)), out, fn,
            tuple(sorted((o.name, PD.option(o)) for o in N.ProgramOption)))


class _Hang(BaseException):
    pass


def _hang(signum, frame):
    raise _Hang()


def closure(flags):
    s = set(flags)
    ch = True
    while ch:
        ch = False
        for f in list(s):
            for x in f.implies:
                if PF(x) not in s:
                    s.add(PF(x))
                    ch = True
    return s


def check_config(level, explicit, res):
    """invariants for a well-formed command line. explicit: dict flag->bool. returns list of problems."""
    on_exp = [f for f, v in explicit.items() if v]
    direct_conflict = any(excl(a, b) for a, b in itertools.combinations(on_exp, 2))
    clo = closure(on_exp)
    any_conflict = any(excl(a, b) for a, b in itertools.combinations(sorted(clo, key=lambda f: f.value), 2))
    if res[0] == "crash":
        return ["internal exception %s" % res[1]]
    if res[0] == "argerror":
        if not any_conflict:
            return ["well-formed, conflict-free command line rejected: %s" % res[1]]
        return []
    if res[0] != "ok":
        return ["unexpected outcome %r" % (res,)]
    on = res[1]
    probs = []
    if direct_conflict:
        probs.append("both members of an exclusive pair requested explicitly but no error")
    for f in on:
        for x in f.implies:
            if PF(x) not in on:
                probs.append("%s is on but its implied flag %s is off" % (f.name, PF(x).name))
    for a, b in itertools.combinations(sorted(on, key=lambda f: f.value), 2):
        if excl(a, b):
            probs.append("mutually exclusive %s and %s both on" % (a.name, b.name))
    lv = level_flags(level)
    for f in PF:
        implied_by_on = any(f.value in g.implies for g in on)
        displaced = any(excl(f, g) for g in on if g is not f)
        if f in explicit:
            if explicit[f] and f not in on:
                probs.append("explicit -f%s not on" % fname(f))
            if not explicit[f] and f in on and not implied_by_on:
                probs.append("explicit -fno-%s but flag is on and nothing on implies it" % fname(f))
        else:
            base = f.default or f in lv
            if f in on and not base and not implied_by_on:
                probs.append("%s on without default, level, request or implication" % f.name)
            if f not in on and base and not displaced:
                probs.append("%s off although default/level turns it on and no exclusive partner is on" % f.name)
            if f not in on and implied_by_on:
                pass  # already reported above
    return probs


def words(explicit):
    return [("-f" if v else "-fno-") + fname(f) for f, v in explicit.items()]


# ---- workers ------------------------------------------------------------------------------------

def w_assign(job):
    """job: (first flag states tuple for a slice) -> enumerates the rest"""
    prefix, nfl = job
    flags = meta_flags()
    out = dict(n=0, distinct=set(), bad=[], errors=0)
    rest = len(flags) - len(prefix)
    for tail in itertools.product((None, True, False), repeat=rest):
        if len(out["bad"]) >= 20:
            out["truncated"] = True     # a badly broken tree: enough evidence, do not spend hours
            break
        assign = tuple(prefix) + tail
        explicit = {f: v for f, v in zip(flags, assign) if v is not None}
        w = words(explicit)
        prev = None
        for level in range(4):
            argv = ["-O%d" % level] + w + [FILE]
            res = resolve(argv)
            out["n"] += 1
            if res[0] == "ok":
                out["distinct"].add(hash(res[1]))
                if prev is not None and not prev <= res[1]:
                    out["bad"].append((argv, "flags of -O%d are not a superset of -O%d" % (level, level - 1)))
                prev = res[1]
            else:
                out["errors"] += 1
            for p in check_config(level, explicit, res):
                if len(out["bad"]) < 20:
                    out["bad"].append((argv, p))
            if res[0] == "crash" and "terminate" in res[1]:
                break       # the other levels would hang the same way
    out["distinct"] = list(out["distinct"])
    return out


def canon(res):
    return res if res[0] == "ok" else (res[0],)


def w_order(job):
    """job: list of word-multisets; all permutations of each must resolve identically"""
    out = dict(n=0, sets=0, bad=[])
    for ws in job:
        if len(out["bad"]) >= 10:
            break
        first = None
        out["sets"] += 1
        for perm in itertools.permutations(ws):
            res = canon(resolve(list(perm)))
            out["n"] += 1
            if first is None:
                first = (perm, res)
            elif res != first[1]:
                if len(out["bad"]) < 10:
                    out["bad"].append((list(first[0]), list(perm), describe(first[1]), describe(res)))
                break
    return out


def describe(res):
    if res[0] == "ok":
        return {"on": sorted(f.name for f in res[1]), "out": res[2], "file": res[3]}
    return list(res)


# ---- main ---------------------------------------------------------------------------------------

def order_sets(maxk):
    flags = meta_flags()
    sets = []
    for k in range(2, maxk + 1):
        for combo in itertools.combinations(flags, k):
            for pol in itertools.product((True, False), repeat=k):
                sets.append(tuple(words(dict(zip(combo, pol))) + [FILE]) if k <= 2 else tuple(words(dict(zip(combo, pol)))))
    return sets


def run(tier, seed):
    ck = Check("C19", tier, seed, "model_checking",
               rule="command lines enumerated exhaustively (assignment space, orderings, spellings, malformed menu); "
                    "distinct = distinct resolved configurations / outcomes observed")
    flags = meta_flags()
    ck.extra["related_flags"] = [f.name for f in flags]
    if len(flags) != 11:
        ck.assumptions.append("flag metadata relates %d flags (design assumed 11); enumeration adapts" % len(flags))
    # (a) assignment space, split by the first 3 flags -> 27 jobs
    jobs = [(p, len(flags)) for p in itertools.product((None, True, False), repeat=3)]
    nconf = 0
    for _, r in pmap(w_assign, jobs, timeout=1200, chunksize=1, stop=ck.enough):
        if "harness_error" in r or "harness_timeout" in r:
            from nv.framework import harness_fail
            harness_fail(str(r))
        ck.add(states=r["n"], traces_validated_against_impl=r["n"], evaluations=r["n"])
        for d in r["distinct"]:
            ck.note(("cfg", d))
        nconf += r["n"]
        for argv, p in r["bad"]:
            ck.violation("C19:config:" + p.split(":")[0][:60] + ":" + " ".join(argv), p, dict(kind="config", argv=argv))
    ck.extra["assignments_x_levels"] = nconf
    ck.sample({"argv": ["-O2", "-fyield-support", "-fno-hook-global", FILE], "outcome": describe(canon(resolve(["-O2", "-fyield-support", "-fno-hook-global", FILE])))})

    # (b) orderings
    maxk = 3 if tier == "quick" else 4
    sets = order_sets(maxk)
    # words file/-o/-O moving among flags
    mixed = []
    for a, b in itertools.permutations(flags[:6], 2):
        mixed.append((FILE, "-oNAME", "-O2", "-f" + fname(a), "-fno-" + fname(b)))
    for a in flags:
        mixed.append((FILE, "-oNAME", "-f" + fname(a)))
        mixed.append((FILE, "--output", "NAME"))
    # permutations that split "--output NAME" are different command lines; keep only single-word forms there
    mixed = [m for m in mixed if "--output" not in m]
    # for sets without FILE add it at the end of each permutation (handled by wrapping)
    sets2 = [s if FILE in s else s for s in sets]
    chunks = [sets2[i::64] for i in range(64)]
    chunks += [mixed[i::8] for i in range(8)]
    nperm = 0
    for _, r in pmap(w_order_wrapped, chunks, timeout=1200, chunksize=1, stop=ck.enough):
        if "harness_error" in r or "harness_timeout" in r:
            from nv.framework import harness_fail
            harness_fail(str(r))
        nperm += r["n"]
        ck.add(transitions=r["n"], traces_validated_against_impl=r["n"], evaluations=r["n"])
        for a, b, ra, rb in r["bad"]:
            what = "same words, different order, different result: %s -> %s ; %s -> %s" % (a, ra, b, rb)
            key = "out" if (isinstance(ra, dict) and isinstance(rb, dict) and ra["on"] == rb["on"]) else "flags"
            ck.violation("C19:order:%s:%s" % (key, " ".join(sorted(a))), what[:400], dict(kind="order", argv_a=a, argv_b=b))
    ck.extra["orderings_run"] = nperm
    ck.extra["ordering_max_flags"] = maxk

    # (c) spellings, (d) optimisation flags, (e) malformed - cheap, in-process
    n = 0
    for f in PF:
        nm = fname(f)
        on_forms = [["-f" + nm], ["--flag", nm], ["--flag", nm + "=on"], ["--flag", nm + "=yes"]]
        off_forms = [["-fno-" + nm], ["--flag", nm + "=off"], ["--flag", nm + "=no"]]
        for forms, val in ((on_forms, True), (off_forms, False)):
            results = []
            for fm in forms:
                res = canon(resolve(fm + [FILE]))
                n += 1
                results.append(res)
            if any(r != results[0] for r in results):
                ck.violation("C19:spelling:" + nm, "spellings of %s=%s disagree: %s" % (nm, val, [describe(r) for r in results]),
                             dict(kind="spelling", flag=nm, value=val))
        # a value that differs from a documented one only in letter case is either refused or means what its lower-case spelling means - never the opposite
        for v in ("ON", "On", "YES", "Yes", "OFF", "Off", "NO", "No", "oN", "yEs"):
            for lead in ([], ["-fno-" + nm] if v.lower() in ("on", "yes") else ["-f" + nm]):
                res = resolve(lead + ["--flag", nm + "=" + v, FILE])
                ref_ = resolve(lead + ["--flag", nm + "=" + v.lower(), FILE])
                n += 1
                if res[0] == "ok" and canon(res) != canon(ref_):
                    ck.violation("C19:valuecase:%s=%s" % (nm, v), "--flag %s=%s is accepted but does not resolve like %s=%s: %s vs %s" % (nm, v, nm, v.lower(), describe(canon(res)), describe(canon(ref_))),
                                 dict(kind="valuecase", flag=nm, value=v, lead=lead))
    optflags = [f for f in PF if PD._is_optimization_flag(f) >= 0]
    for f in optflags:
        for level in range(4):
            for ex in (None, True, False):
                argv = ["-O%d" % level] + ([] if ex is None else [("-f" if ex else "-fno-") + fname(f)]) + [FILE]
                for av in (argv, argv[1:] + argv[:1]) if ex is not None else (argv,):
                    av = [a for a in av if a != FILE] + [FILE]
                    res = resolve(av)
                    n += 1
                    want = ex if ex is not None else (PD._is_optimization_flag(f) <= level)
                    if res[0] != "ok" or (f in res[1]) != want:
                        ck.violation("C19:optflag:%s" % " ".join(av), "%s expected %s under %s" % (f.name, want, av), dict(kind="optflag", argv=av, flag=f.name, want=want))
    ck.add(states=n, traces_validated_against_impl=n, evaluations=n)

    # (f) histories: the configuration a command line resolves to does not depend on the command line loaded before it
    def oname(o):
        return "--" + o.name.lower().replace("_", "-")
    alt_val = lambda o: ("dot" if isinstance(o.default, str) else str(o.default + 60))
    A = [[FILE], ["-O3", FILE], ["-O0", FILE]] + [[oname(o), alt_val(o), FILE] for o in N.ProgramOption] + [["--flag", "%s=%s" % (o.name.lower().replace("_", "-"), alt_val(o)), FILE] for o in N.ProgramOption]
    A += [["-f" + fname(f), FILE] for f in PF if not f.default] + [["-fno-" + fname(f), FILE] for f in PF if f.default]
    A += [["--dump", d.name.lower().replace("_", "-"), "--dump-prefix", "zz", "--dry-run", FILE] for d in list(N.DebugDumpable)[:2]] + [["-O4", FILE], ["-fnosuch", FILE], ["-o", "outname", FILE]]
    B = [[FILE], ["-O2", FILE], ["-fyield-support", FILE], ["--collapsed-range-length", "2", FILE], ["-O3", "-fno-hook-global", "-fhook-per-state", "other.nmfu"]]
    nh = 0
    for b in B:
        resolve([FILE])
        want = resolve(b)
        given = {b[i][2:].upper().replace("-", "_"): b[i + 1] for i in range(len(b) - 1) if b[i].startswith("--")}
        if want[0] == "ok":
            for nm_o, val in want[4]:
                exp = given.get(nm_o, N.ProgramOption[nm_o].default)
                if str(val) != str(exp):
                    ck.violation("C19:history:option:%s" % " ".join(b), "%s: option %s is %r, expected %r" % (b, nm_o, val, exp), dict(kind="history", first=[FILE], argv=b))
        for a in A:
            resolve(a)
            got = resolve(b)
            nh += 1
            ck.note(("history", got[0]))
            if got != want:
                diff = [x for x in zip(got, want) if x[0] != x[1]][:1]
                ck.violation("C19:history:%s" % " ".join(a), "loading %s first changes what %s resolves to: %s" % (a, b, diff), dict(kind="history", first=a, argv=b))
    ck.add(states=nh, traces_validated_against_impl=nh, evaluations=nh)
    ck.extra["history_pairs"] = nh

    nm_ = 0
    for argv, why in malformed_menu():
        res = resolve(argv)
        nm_ += 1
        ck.note(("malformed", res[0]))
        if res[0] == "crash":
            ck.violation("C19:malformed:crash:" + " ".join(argv), "malformed option (%s) escapes as %s instead of a reported option error" % (why, res[1]),
                         dict(kind="malformed", argv=argv, why=why))
        elif res[0] == "ok":
            ck.violation("C19:malformed:ignored:" + " ".join(argv), "malformed option (%s) silently accepted" % why,
                         dict(kind="malformed", argv=argv, why=why))
    ck.add(states=nm_, traces_validated_against_impl=nm_, evaluations=nm_)
    ck.extra["malformed_cases"] = nm_
    ck.sample({"malformed": ["-O4", FILE], "outcome": list(canon(resolve(["-O4", FILE])))[:2]})
    ck.exhaustive = True
    ck.assumptions += [
        "well-formedness and conflict-freedom are decided from ProgramFlag metadata (implies / exclusive_with) and the level table, which are taken as the specification of the relations",
        "--help/--version (process exit) are not part of the configuration space",
    ]
    return ck.finish()


def w_order_wrapped(job):
    job2 = [ws if FILE in ws else tuple(ws) for ws in job]
    # command lines without the file word get it appended after permutation: emulate by permuting with FILE included
    job3 = [ws if FILE in ws else ws + (FILE,) for ws in job2]
    # permuting FILE as well is part of the space (file position must not matter)
    return w_order(job3)


def malformed_menu():
    """(argv, why) pairs that are malformed by construction"""
    out = []
    valid_flag_names = {fname(f) for f in PF}
    valid_opt_names = {o.name.lower().replace("_", "-") for o in N.ProgramOption}
    # unknown flags: every proper prefix and one-char corruption of every flag name that is not itself a flag
    for f in PF:
        nm = fname(f)
        cands = {nm[:i] for i in range(1, len(nm))} | {nm + "x", "x" + nm, nm.replace("-", "_", 1) if "-" in nm else nm + "-"}
        for c in sorted(cands):
            if c in valid_flag_names or c.upper().replace("-", "_") in PF.__members__:
                continue
            if c.startswith("no-") and c[3:] in valid_flag_names:
                continue
            out.append((["-f" + c, FILE], "unknown flag"))
            out.append((["--flag", c, FILE], "unknown flag"))
    for o in N.ProgramOption:
        nm = o.name.lower().replace("_", "-")
        for c in sorted({nm[:i] for i in range(1, len(nm))} | {nm + "x"}):
            if c in valid_opt_names or c in ("output", "flag", "dump", "dump-prefix", "dry-run", "help", "help-all", "version", "o", "f", "d", "t", "h"):
                continue
            out.append((["--" + c, "1", FILE], "unknown option"))
        out.append(([FILE, "--" + nm], "missing value"))
        if isinstance(o.default, int):
            for bad in ("abc", "1.5", "", "0x"):
                out.append((["--" + nm, bad, FILE], "non-integer value"))
    for lv in ("4", "5", "9", "10", "-1", "x", "", "1x", "2.0", "0x1", "1 2", "--1"):
        out.append((["-O" + lv, FILE], "invalid optimisation level"))
    for v in ("a=b=c", "eof-support=maybe", "eof-support=", "eof-support=true", "eof-support=1", "eof-support=ON ", "=on", "eof-support=on=on"):
        out.append((["--flag", v, FILE], "malformed flag value"))
    out.append((["--flag", FILE], "missing value"))
    for w in ("--output", "--flag", "--dump", "--dump-prefix"):
        out.append(([FILE, w], "missing value"))
    out.append(([FILE, FILE], "duplicate input"))
    out.append(([FILE, "other.nmfu"], "duplicate input"))
    out.append((["-oname.c", FILE], "output with extension"))
    out.append((["--output", "name.h", FILE], "output with extension"))
    for w in ("-", "--", "-x", "-X1", "--nonsense", "-Z", "-dbogus", "-dast,bogus", "--dump", ):
        if w in ("--", "--nonsense", "--dump"):
            out.append(([w, "bogus", FILE], "unknown option / dump kind"))
        else:
            out.append(([w, FILE], "unknown option / dump kind"))
    out.append(([], "no input"))
    out.append((["-O2"], "no input"))
    return out


def replay(path):
    d = json.load(open(path))
    k = d["kind"]
    if k == "order":
        a = canon(resolve(d["argv_a"]))
        b = canon(resolve(d["argv_b"]))
        print("A:", d["argv_a"], describe(a))
        print("B:", d["argv_b"], describe(b))
        bad = a != b
    elif k in ("malformed",):
        r = resolve(d["argv"])
        print(d["argv"], "->", r[:2])
        bad = r[0] in ("crash", "ok")
    elif k == "config":
        argv = d["argv"]
        level = int(argv[0][2:])
        explicit = {}
        for w in argv[1:-1]:
            on = not w.startswith("-fno-")
            explicit[PF[(w[2:] if on else w[5:]).upper().replace("-", "_")]] = on
        r = resolve(argv)
        probs = check_config(level, explicit, r)
        print(argv, "->", describe(canon(r)), probs)
        bad = bool(probs)
    elif k == "valuecase":
        a = canon(resolve(d["lead"] + ["--flag", d["flag"] + "=" + d["value"], FILE]))
        b = canon(resolve(d["lead"] + ["--flag", d["flag"] + "=" + d["value"].lower(), FILE]))
        print(describe(a), "|", describe(b))
        bad = a[0] == "ok" and a != b
    elif k == "history":
        resolve([FILE])
        want = resolve(d["argv"])
        resolve(d["first"])
        got = resolve(d["argv"])
        print("alone:", want[:2], want[4:], "\nafter", d["first"], ":", got[:2], got[4:])
        bad = got != want
    elif k == "optflag":
        r = resolve(d["argv"])
        bad = r[0] != "ok" or (PF[d["flag"]] in r[1]) != d["want"]
        print(d["argv"], describe(canon(r)))
    else:
        nm = d["flag"]
        print("spelling replay", nm)
        bad = True
    print("REPRODUCED" if bad else "not reproduced")
    return 1 if bad else 0
