"""C02 - parsing result is independent of chunking.

Stateless exhaustive exploration of the real generated C: per accepted program (direct and indirect start pointer,
with and without yields, with end() when EOF support is on) a driver compiled together with the parser enumerates
EVERY string up to length L over the program's byte-class representatives and EVERY composition of it into
positive chunks (2^(n-1)), re-invoking feed after each yield at the returned position, and compares the
chunk-independent trace (hook calls with argument, absolute offset and visible outputs; yield codes with absolute
offsets; terminal code with bytes consumed; end() result; final outputs) with the one-chunk run.  Longer witness
inputs (shortest input reaching every machine state) are run one-chunk vs every single cut point vs byte-wise.
"""
import json
from nv.framework import Check, pmap, sha, harness_fail
from nv import loader, progs, conform, cbuild, universe as U, bisim
from nv.am import AM, Malformed

VARIANTS = [[], ["-findirect-start-ptr"], ["-O3", "-findirect-start-ptr"]]


def pick_reps(am, stmts, maxn):
    if stmts is not None:
        reps = U.reps_of(stmts)
    else:
        reps = bisim.reps_for([am])
    reps = [r for r in reps if r < 256]
    if len(reps) > maxn:
        # the bytes the machine asks for first: breadth-first over its states from the start state, one representative per explicit
        # transition set in the order met (so that short strings over the chosen bytes get as deep into the program as possible),
        # plus one byte no explicit set names
        order = []
        seconds = []
        seen = set()
        start = am.dfa.starting_state
        queue = [start]
        seen.add(id(start))
        while queue:
            st = queue.pop(0)
            nxt = []
            for t in st.transitions:
                vals = sorted(ord(v) for v in getattr(t, "on_values", ()) if isinstance(v, str))
                if vals:
                    pick = next((v for v in vals if v in reps), vals[0])
                    if pick not in order:
                        order.append(pick)
                    hi = next((v for v in reversed(vals) if v in reps), vals[-1])     # the other end of the class ($last may tell them apart)
                    if hi != pick and hi not in seconds:
                        seconds.append(hi)
                nxt.append(t.target)
                for a in t.actions:
                    for sub in a.all_subactions():
                        nxt.extend(x for x in sub.get_target_override_targets() if x is not None)
            for x in nxt:
                if x is not None and id(x) not in seen:
                    seen.add(id(x))
                    queue.append(x)
        seconds = [r for r in seconds if r not in order]
        other = [r for r in reps if r not in order and r not in seconds]
        nfirst = max(maxn - 1 - min(len(seconds), max(1, maxn // 3)), 1)
        chosen = order[:nfirst]
        chosen += seconds[:maxn - 1 - len(chosen)]
        chosen += other[:1]
        if len(chosen) < maxn:
            chosen += [r for r in order[nfirst:] + seconds + other[1:] if r not in chosen][:maxn - len(chosen)]
        reps = chosen
    return sorted(set(reps))[:maxn]


def boundary_reps(am, maxn):
    """range boundaries of the machine's byte classes: members whose predecessor or successor is outside the class (isolated bytes included)"""
    out = []
    for s in sorted(bisim.machine_sets(am), key=lambda x: (len(x), min(x))):
        if len(s) < 3:
            continue
        bs = [b for b in sorted(s) if (b - 1) not in s or (b + 1) not in s]
        iso = [b for b in bs if (b - 1) not in s and (b + 1) not in s]
        for b in iso + bs:
            if b not in out:
                out.append(b)
            if len(out) >= maxn:
                return out
    return out


def check_program(item):
    src, argv, label, L, maxreps = item["src"], item["argv"], item["label"], item["L"], item["maxreps"]
    res = dict(label=label, argv=argv, status="ok", strings=0, schedules=0, feeds=0, problems=[], wschedules=0)
    acc = loader.compile_source(src, argv)
    if acc.kind != "accepted":
        res["status"] = acc.kind
        return res
    try:
        am = AM(acc.dctx)
    except Malformed:
        res["status"] = "malformed"
        return res
    reps = pick_reps(am, item.get("ast"), maxreps)
    try:
        cp = cbuild.CProg(acc, "gcc")
    except cbuild.BuildError as e:
        res["status"] = "cbuild_failed"
        return res
    with cp:
        script = cp.op_exhaust(L, reps, do_end=am.eof)
        wits = [w for w in conform.am_witnesses(am, reps, limit=25, maxlen=20) if len(w) > L] + list(progs.FEATURE_WITNESSES.get(label, []))
        for w in wits:
            script += cp.op_witness(w, do_end=am.eof)
        recs, status = cp.run(script, timeout=60)
        if status == "timeout":
            res["status"] = "hang"      # a parser that never returns is C04's subject; nothing can be said about chunking
            return res
        if status != "ok":
            res["problems"].append(dict(kind="crash", what="C driver ended with %s: %s" % (status, cp.stderr[-200:]), input="", mask=0))
            return res
        x = recs[0][1]
        res["strings"], res["schedules"], res["feeds"] = x["strings"], x["schedules"], x["feeds"]
        res["reps"] = reps
        if x["diffs"]:
            for d in x["diff_details"][:2]:
                res["problems"].append(dict(kind="chunking", what="input %r split by mask %s: one chunk %s | chunked %s" % (d["input"], bin(d["mask"]), brief(d["one_chunk"]), brief(d["chunked"])),
                                            input=d["input"].hex(), mask=d["mask"]))
        for w, r in zip(wits, recs[1:]):
            res["wschedules"] += r[1]["schedules"]
            if r[1]["diffs"]:
                res["problems"].append(dict(kind="chunking-long", what="input %r: %d of %d cut patterns differ from the one-chunk run (first: %s)" % (w, r[1]["diffs"], r[1]["schedules"], "a cut after every byte" if r[1]["mask"] == 0x7fffffff else "one cut after byte %d" % r[1]["mask"]),
                                            input=w.hex(), mask=r[1]["mask"]))
                break
    return res


def brief(tr):
    out = []
    for r in tr:
        if r[0] == "hook":
            out.append("hook %s(%d)@%d %s" % (r[1], r[2], r[3], r[4]))
        elif r[0] in ("yield", "result"):
            out.append("%s %s@%d" % r)
        elif r[0] == "final":
            out.append("final %s" % (r[1],))
        else:
            out.append(" ".join(map(str, r)))
    return "; ".join(out)[-500:]


def programs(tier, seed):
    L, maxreps = (5, 5) if tier == "quick" else (7, 5)
    base = progs.corpus() + progs.features()
    yl = [dict(label="Y#%d" % i, src=s, argv=a, ast=None) for i, (s, a) in enumerate(yield_programs())]
    if tier == "quick":
        uni = progs.universe_slice(2, step=211, offset=seed) + progs.universe_slice(1, step=5, offset=seed)
    else:
        uni = progs.universe_slice(2, step=9, offset=seed) + progs.universe_slice(1, step=1)
    hw = [progs.from_ast(tuple(p), "HW#%d" % j) for j, p in enumerate(U.handwritten())]
    for p in hw:
        p["ast"] = None     # run them under every variant like the corpus
    items = []
    for i, p in enumerate(base + yl + hw + uni):
        for v in (VARIANTS if (tier == "thorough" or p["ast"] is None) else [VARIANTS[(i + seed) % 3]]):
            items.append(dict(label=p["label"], src=p["src"], argv=p["argv"] + [f for f in v if f not in p["argv"]], ast=p.get("ast"), L=L, maxreps=maxreps))
    return items


def yield_programs():
    out = []
    y = ["-fyield-support"]
    out.append(('yieldcode A, B; hook h; out str[4] t; parser { loop { t += /[ab]/; yield A; h(); optional { "c"; yield B; } } }', y))
    out.append(('yieldcode A, B; out int{unsigned, size 1} n = 0; parser { loop { case { "ab" -> { yield A; } "b" -> { n = [n + 1]; yield B; } else -> { wait "a"; } } } }', y))
    out.append(('yieldcode A; finishcode F; out str[3] s; parser { try { loop { s += /a/; yield A; } } catch (outofspace) { finish F; } }', y))
    out.append(('yieldcode A, B; hook h; parser { loop { greedy case { /a+/ -> { yield A; } "ab" -> { yield B; } /b/ -> { h(); } } } }', y + ["-O3"]))
    out.append(('yieldcode A; hook h; parser { foreach { /a+b/; } do { h(); } yield A; "c"; }', y))
    out.append(('yieldcode A, B; parser { "a"; yield A; "b"; yield B; "a"; }', y + ["-O3"]))
    out.append(('yieldcode A; out str[3] s; parser { loop { s += [65]; "a"; yield A; } }', y + ["-O3", "-feof-support"]))
    out.append(('yieldcode A; parser { "ab"; yield A; }', y + ["-O3"]))
    out.append(('yieldcode A; parser { "ab"; yield A; }', y))
    out.append(('yieldcode T, LAST; parser { loop { case { /[ab]+/ -> { yield T; } ";" -> { break; } } } "end"; yield LAST; }', y + ["-O3"]))
    return out


def run(tier, seed):
    ck = Check("C02", tier, seed, "model_checking",
               rule="per program: all strings <= L over <= 5 byte-class representatives x all 2^(n-1) compositions, executed on the generated C by an in-process driver; "
                    "distinct = programs whose exploration ran at least 1000 schedules; states = strings explored, transitions = feed calls")
    items = programs(tier, seed)
    stats = dict(items=len(items), accepted=0, rejected=0, cbuild_failed=0, schedules=0, long_witness_schedules=0)
    for idx, r in pmap(check_program, items, timeout=900, chunksize=2, stop=ck.enough):
        if "harness_error" in r or "harness_timeout" in r:
            harness_fail("%s on %s" % (r, items[idx]["label"]))
        if r["status"] == "cbuild_failed":
            stats["cbuild_failed"] += 1
            continue
        if r["status"] == "hang":
            stats["hangs_left_to_C04"] = stats.get("hangs_left_to_C04", 0) + 1
            continue
        if r["status"] != "ok":
            stats["rejected"] += 1
            continue
        stats["accepted"] += 1
        stats["schedules"] += r["schedules"]
        stats["long_witness_schedules"] += r["wschedules"]
        ck.add(programs=1, states=r["strings"], transitions=r["feeds"], traces_validated_against_impl=r["schedules"] + r["wschedules"], evaluations=r["schedules"])
        if r["schedules"] >= 1000:
            ck.note(r["label"] + " ".join(r["argv"]))
        if idx % 53 == 0:
            ck.sample(dict(program=r["label"], argv=r["argv"], representatives=r.get("reps"), strings=r["strings"], schedules=r["schedules"], feed_calls=r["feeds"]))
        for p in r["problems"]:
            it = items[idx]
            ck.violation("C02:%s:%s" % (p["kind"], sha(it["src"] + " ".join(it["argv"]))[:10]), "%s %s: %s" % (it["label"], it["argv"], p["what"]),
                         dict(src=it["src"], argv=it["argv"], input=p["input"], mask=p["mask"], L=it["L"]))
    ck.extra.update(stats)
    ck.exhaustive = True
    ck.assumptions += ["gcc -O1 on x86-64 is 'the C'; each chunk is copied into its own heap buffer so nothing but the state struct can carry over",
                       "alphabet = at most 5 representatives of the program's byte classes (literal bytes preferred); strings longer than L only as BFS witnesses with single cuts and byte-wise"]
    return ck.finish()


def replay(path):
    d = json.load(open(path))
    r = check_program(dict(src=d["src"], argv=d["argv"], label="replay", L=d.get("L", 5), maxreps=5))
    for p in r["problems"]:
        print(p["what"])
    print("REPRODUCED" if r["problems"] else "not reproduced")
    return 1 if r["problems"] else 0
