"""C14 - math expressions evaluate as C arithmetic over the parser's variables.

Bounded-exhaustive expression trees over all 19 operators (|| && | ^ & == != < > <= >= << >> + - * / % ! unary-):
every operator over every ordered pair of atoms, and every operator PAIR in both nestings (this is what exercises the
grammar's precedence layering and associativity, because expressions are printed with minimal parentheses under C
precedence), over atoms {literals dec/hex/bin/char/bool, int outputs of every width and signedness, bool, string
length, indexed bytes in and out of range, $last}; used in every context (assignment to every int width/sign and to
bool, character append, if-condition with a consuming body, action-only if); evaluated on the real generated C for a
menu of boundary valuations of the variables and compared with an independent typed big-integer C evaluator on OUR
AST (nv/cexpr.py).  Valuations on which C leaves the result undefined are skipped.
"""
import itertools
import json
from nv.framework import Check, pmap, sha, harness_fail
from nv import loader, cbuild, cexpr, universe as U

VARS = {
    "a": ("int{signed, size 1}", (8, True)), "b": ("int{unsigned, size 1}", (8, False)), "c": ("int{signed, size 2}", (16, True)), "d": ("int{unsigned, size 2}", (16, False)),
    "e": ("int", (32, True)), "u": ("int{unsigned}", (32, False)), "l": ("int{size 8}", (64, True)), "q": ("int{unsigned, size 8}", (64, False)),
    "w": ("int{unsigned, size 4}", (32, False)), "x": ("int{signed, size 4}", (32, True)),      # the 32-bit types spelled with an explicit size
}
TARGETS = ["a", "b", "c", "d", "e", "u", "l", "q", "w", "x"]
ARITH = ["+", "-", "*", "/", "%", "|", "^", "&", "<<", ">>"]
CMP = ["==", "!=", "<", ">", "<=", ">="]
LOGIC = ["||", "&&"]


def V(n):
    return ("var", n)


I_ATOMS = [("num", 0), ("num", 1), ("num", 2), ("num", 7), ("num", 255, "0xff"), ("num", -1), ("num", 3, "0b11"), ("char", 97), ("num", 2147483647), ("num", 40),
           V("a"), V("b"), V("c"), V("d"), V("e"), V("u"), V("l"), V("q"), V("w"), ("len", "s"), ("idx", "s", ("num", 0)), ("idx", "s", ("num", 1)), ("idx", "s", ("num", 9)), ("idx", "s", V("a")), ("last",)]
I_SMALL = [("num", 2), ("num", -1), V("a"), V("b"), V("e"), V("u"), ("idx", "s", ("num", 0))]
B_ATOMS = [("bool", 1), ("bool", 0), V("f"), V("g")]


def const_value(e):
    """value of a variable-free expression (python integers, as the compiler folds it), else None"""
    t = e[0]
    if t in ("num", "char", "bool"):
        return e[1]
    if t == "neg":
        v = const_value(e[1])
        return None if v is None else -v
    if t == "bin" and e[1] in ("+", "-", "*"):
        a, b = const_value(e[2]), const_value(e[3])
        if a is None or b is None:
            return None
        return {"+": a + b, "-": a - b, "*": a * b}[e[1]]
    return None


def typed_trees(tier, seed):
    """-> list of (type 'I'|'B', expr)"""
    out = []
    for x in I_ATOMS:
        out.append(("I", x))
        out.append(("I", ("neg", x)))
    for x in B_ATOMS:
        out.append(("B", x))
        out.append(("B", ("not", x)))
    # every operator x every ordered pair of atoms
    for op in ARITH:
        for x, y in itertools.product(I_ATOMS, I_ATOMS):
            out.append(("I", ("bin", op, x, y)))
    for op in CMP:
        for x, y in itertools.product(I_ATOMS, I_ATOMS):
            out.append(("B", ("bin", op, x, y)))
        for x, y in itertools.product(B_ATOMS, B_ATOMS):
            if op in ("==", "!="):
                out.append(("B", ("bin", op, x, y)))
    for op in LOGIC:
        for x, y in itertools.product(B_ATOMS, B_ATOMS):
            out.append(("B", ("bin", op, x, y)))
    # every operator pair in both nestings (precedence / associativity), over small atom triples
    triples = [(I_SMALL[i], I_SMALL[(i + 2) % len(I_SMALL)], I_SMALL[(i + 5) % len(I_SMALL)]) for i in range(len(I_SMALL))]
    if tier == "quick":
        triples = triples[seed % 3::3]
    # operands of different widths: a narrower (unsigned 32-bit) sub-expression nested in a 64-bit one keeps its own type
    triples += [(V("l"), V("u"), V("e")), (V("q"), V("w"), V("x")), (V("u"), V("b"), V("q")), (V("l"), V("w"), V("d"))]
    btri = [(B_ATOMS[2], B_ATOMS[0], B_ATOMS[3]), (B_ATOMS[3], B_ATOMS[2], B_ATOMS[1])]

    def ty(op):
        return "I" if op in ARITH else "B"

    def mk(op, l, lt, r, rt):
        """well-typed combination or None"""
        if op in ARITH:
            return ("bin", op, l, r) if lt == rt == "I" else None
        if op in CMP:
            if lt == rt == "I":
                return ("bin", op, l, r)
            if lt == rt == "B" and op in ("==", "!="):
                return ("bin", op, l, r)
            return None
        return ("bin", op, l, r) if lt == rt == "B" else None
    ops = ARITH + CMP + LOGIC
    for o1, o2 in itertools.product(ops, ops):
        for (x, y, z) in triples:
            for (p, q_, r) in btri:
                # left nesting: (x o1 y) o2 z ; right nesting: x o2 (y o1 z)
                for inner_atoms, outer_atom, left in (((x, y), z, True), ((y, z), x, False), ((p, q_), r, True), ((q_, r), p, False), ((x, y), r, True), ((p, q_), z, True)):
                    ia, ib = inner_atoms
                    at = "B" if ia in B_ATOMS else "I"
                    bt = "B" if ib in B_ATOMS else "I"
                    inner = mk(o1, ia, at, ib, bt)
                    if inner is None:
                        continue
                    it = ty(o1)
                    ot = "B" if outer_atom in B_ATOMS else "I"
                    e = mk(o2, inner, it, outer_atom, ot) if left else mk(o2, outer_atom, ot, inner, it)
                    if e is not None:
                        out.append((ty(o2), e))
    for op in ARITH + CMP:
        for x in I_SMALL[:4]:
            out.append((ty(op), ("bin", op, ("neg", x), I_SMALL[0])))
            out.append((ty(op), ("bin", op, I_SMALL[1], ("neg", x))))
    for op in CMP:
        for x, y in itertools.product(I_SMALL, I_SMALL):
            out.append(("B", ("not", ("bin", op, x, y))))
            out.append(("B", ("bin", "==", ("not", ("bin", op, x, y)), B_ATOMS[2])))
    for op in LOGIC + ["==", "!="]:
        for x in B_ATOMS:
            out.append(("B", ("bin", op, ("not", x), B_ATOMS[2])))
            out.append(("B", ("bin", op, B_ATOMS[3], ("not", x))))
            out.append(("B", ("not", ("bin", op, x, B_ATOMS[2]))))
    # string indices that go negative only through C's integer promotion of narrow unsigned operands (s.len - 1 on an empty string, b - 1 with b == 0, ...)
    for ie in (("bin", "-", ("len", "s"), ("num", 1)), ("bin", "-", V("b"), ("num", 1)), ("bin", "-", V("d"), ("num", 2)), ("bin", "-", V("b"), V("d")), ("bin", "-", ("len", "s"), V("b")),
               ("bin", "-", ("idx", "s", ("num", 0)), ("num", 1)), ("bin", "-", V("u"), ("num", 1)), ("bin", "-", V("q"), ("num", 1)), ("bin", "+", ("num", -1), V("b")), ("bin", "-", ("last",), ("num", 200)),
               ("bin", "*", V("b"), ("num", -1)), ("bin", "-", ("bin", "&", V("d"), ("num", 1)), ("num", 1)), ("neg", ("len", "s")), ("neg", V("b"))):
        out.append(("I", ("idx", "s", ie)))
        out.append(("B", ("bin", "!=", ("idx", "s", ie), ("num", 0))))
        out.append(("I", ("bin", "+", ("idx", "s", ie), ("num", 1))))
    def zero_div(e):
        if e[0] == "bin":
            if e[1] in ("/", "%") and e[3][0] == "num" and e[3][1] == 0:
                return True
            if e[1] in ("<<", ">>") or e[1] in ("/", "%"):
                cv = const_value(e[3])
                if cv is not None and ((e[1] in ("<<", ">>") and not 0 <= cv < 64) or (e[1] in ("/", "%") and cv == 0)):
                    return True      # constant shift counts outside 0..63 / constant zero divisors are (rightly) compile-time errors
            return zero_div(e[2]) or zero_div(e[3])
        if e[0] in ("not", "neg"):
            return zero_div(e[1])
        return False
    out = [(t, e) for t, e in out if not zero_div(e)]      # division by a literal zero is (rightly) a compile-time error
    # de-duplicate by text
    seen = set()
    res = []
    for t, e in out:
        k = U.e_text(e)
        if k not in seen:
            seen.add(k)
            res.append((t, e))
    return res


BOUND = {(8, True): [0, 1, -1, 127, -128, 7], (8, False): [0, 1, 255, 254, 2, 128], (16, True): [0, 1, -1, 32767, -32768, 300], (16, False): [0, 1, 65535, 2, 40000, 256],
         (32, True): [0, 1, -1, 2147483647, -2147483648, 7], (32, False): [0, 1, 4294967295, 2, 2147483648, 31], (64, True): [0, 1, -1, (1 << 63) - 1, -(1 << 63), 40], (64, False): [0, 1, (1 << 64) - 1, 2, 1 << 63, 33]}


def valuations(tier):
    vals = []
    names = list(VARS)
    n = 14 if tier == "quick" else 36
    for k in range(n):
        d = {}
        for j, nm in enumerate(names):
            b = BOUND[VARS[nm][1]]
            d[nm] = b[(k * (j + 1) + j) % len(b)]
        d["f"] = (k >> 0) & 1
        d["g"] = (k >> 1) & 1
        d["s"] = [b"", b"a", b"\xff\x00", b"\x80z"][k % 4]
        vals.append(d)
    return vals


DECLS = dict(cexpr.DECLS)
for nm, (t, ct) in VARS.items():
    DECLS[nm] = dict(kind="int", type=ct, default=0)
DECLS["f"] = dict(kind="bool", default=0)
DECLS["g"] = dict(kind="bool", default=0)
DECLS["s"] = dict(kind="str", size=4, cap=3, term=True)


def build_program(chunk):
    """chunk: list of (type, expr, context).  -> (source, result spec)"""
    decl = ["out %s %s = 0;" % (t, nm) for nm, (t, _) in VARS.items()] + ["out bool f = false;", "out bool g = false;", "out str[4] s;"]
    body = []
    spec = []
    nappend = sum(1 for c in chunk if c[2] == "append")
    decl.append("out unterminated str[%d] t;" % max(nappend, 1))
    for i, (ty, e, ctx) in enumerate(chunk):
        txt = U.e_text(e)
        if ctx.startswith("assign:"):
            tgt = ctx.split(":")[1]
            if tgt == "bool":
                decl.append("out bool r%d = false;" % i)
                body.append("  r%d = [%s];" % (i, txt))
                spec.append(("bool", i))
            else:
                decl.append("out %s r%d = 0;" % (VARS[tgt][0], i))
                body.append("  r%d = [%s];" % (i, txt))
                spec.append((tgt, i))
        elif ctx == "append":
            body.append("  t += [%s];" % txt)
            spec.append(("append", i))
        elif ctx == "ifaction":
            decl.append("out int{unsigned, size 1} r%d = 0;" % i)
            body.append("  if %s { r%d = 1; } else { r%d = 2; }" % (txt, i, i))
            spec.append(("cond", i))
    src = "\n".join(decl) + "\nparser {\n  \"x\";\n" + "\n".join(body) + "\n  \"x\";\n}\n"
    return src, spec


def build_cond_program(chunk):
    """if-conditions with consuming bodies (condition points): one decision per expression, chained"""
    decl = ["out %s %s = 0;" % (t, nm) for nm, (t, _) in VARS.items()] + ["out bool f = false;", "out bool g = false;", "out str[4] s;"]
    body = []
    for i, (ty, e, ctx) in enumerate(chunk):
        decl.append("out int{unsigned, size 1} r%d = 0;" % i)
        body.append("  if %s { \"t\"; r%d = 1; } else { \"e\"; r%d = 2; }" % (U.e_text(e), i, i))
    src = "\n".join(decl) + "\nparser {\n  \"x\";\n" + "\n".join(body) + "\n  \"x\";\n}\n"
    return src


def expected(e, ty, ctx, val, last=0x78, env=None):
    data = dict(val)
    try:
        v, t = cexpr.ev(e, env or ENV, data, last)
    except cexpr.CUB:
        return None
    if ctx.startswith("assign:"):
        tgt = ctx.split(":")[1]
        if tgt == "bool":
            return int(v != 0)
        return cexpr.wrap(v, VARS[tgt][1])
    if ctx == "append":
        return v & 0xff
    return 1 if v != 0 else 2


ENV = cexpr.Env(DECLS)
ENV_UNSAFE = cexpr.Env(DECLS, unsafe_index=True)


def traps(e, val, last=0x78):
    """does evaluating e on val execute a division whose divisor is zero or that overflows (SIGFPE on x86)?"""
    if e[0] == "bin":
        if traps(e[2], val, last) or traps(e[3], val, last):
            return True
        if e[1] in ("/", "%"):
            try:
                a, ta = cexpr.ev(e[2], ENV, dict(val), last)
                b, tb = cexpr.ev(e[3], ENV, dict(val), last)
            except cexpr.CUB:
                return True
            t = cexpr.uac(ta, tb)
            x, y = cexpr.conv(a, t), cexpr.conv(b, t)
            if y == 0:
                return True
            if t[1] and y == -1 and x == -(1 << (t[0] - 1)):
                return True
        return False
    if e[0] in ("not", "neg"):
        return traps(e[1], val, last)
    if e[0] == "idx":
        return traps(e[2], val, last)
    return False


def check_chunk(item):
    chunk, vals, argv, kind = item
    res = dict(status="ok", evals=0, ub=0, problems=[], accepted=True)
    if kind == "cond":
        src = build_cond_program(chunk)
    else:
        src, spec = build_program(chunk)
    if kind == "div":
        kind = "divp"
    acc = loader.compile_source(src, argv, timeout=240)       # chunk programs are large; a loaded machine must not turn into a verdict
    if acc.kind != "accepted":
        res["status"] = acc.kind
        res["detail"] = acc.detail + " " + getattr(acc, "message", "")[:200]
        res["src"] = src
        return res
    try:
        cp = cbuild.CProg(acc, "gcc")
    except cbuild.BuildError as e:
        res["status"] = "cbuild_failed"
        res["detail"] = str(e)[:300]
        res["src"] = src
        return res
    names = cp.names
    with cp:
        ops = []
        plans = []
        env = ENV_UNSAFE if "-funsafe-string-indexing" in argv else ENV
        for val in vals:
            exps = [expected(e, ty, ctx, val, env=env) for (ty, e, ctx) in chunk]
            if kind == "divp" and any(traps(e, val) for (ty, e, ctx) in chunk):
                res["ub"] += len(chunk)
                continue
            if kind == "cond":
                # the input must follow the decisions: feed x, then t/e per expression (stop at the first undefined one), then x
                seq = b"x"
                upto = len(chunk)
                for i, x in enumerate(exps):
                    if x is None:
                        upto = i
                        break
                    seq += b"t" if x == 1 else b"e"
                if upto == len(chunk):
                    seq += b"x"
                plans.append((val, exps, upto, seq))
            else:
                seq = b"xx"
                plans.append((val, exps, len(chunk), seq))
            data = {}
            for nm in names:
                if nm in val:
                    data[nm] = val[nm]
                elif nm == "t":
                    data[nm] = b""
                else:
                    data[nm] = 0
            ops.append(cp.op_zero() + cp.op_start() + cp.op_data(data) + cp.op_feed(seq) + cp.op_snap())
        recs, status = cp.run(b"".join(ops), timeout=120)
        if status != "ok":
            res["problems"].append(dict(what="C run ended with %s: %s" % (status, cp.stderr[-200:]), expr="", val={}))
            return res
        snaps = [r for r in recs if r[0] == "N"]
        feeds = [r for r in recs if r[0] == "F"]
        for (val, exps, upto, seq), sn, fd in zip(plans, snaps, feeds):
            d = sn[2]
            if kind == "cond":
                want_code = "DONE" if upto == len(chunk) else "OK"
                if fd[1] != want_code and upto == len(chunk):
                    # locate the first wrong decision from the result variables
                    pass
                for i in range(upto):
                    res["evals"] += 1
                    got = d["r%d" % i]
                    if got != exps[i]:
                        res["problems"].append(dict(what="if-condition `%s` took the %s branch, C arithmetic says %s" % (U.e_text(chunk[i][1]), {1: "then", 2: "else", 0: "no"}.get(got, got), {1: "then", 2: "else"}[exps[i]]),
                                                    expr=U.e_text(chunk[i][1]), val=val))
                        break
                res["ub"] += len(chunk) - upto
                continue
            tbytes = d.get("t", b"")
            ai = 0
            append_ok = True
            for i, ((ty, e, ctx), x) in enumerate(zip(chunk, exps)):
                if ctx == "append":
                    if x is None:
                        append_ok = False      # later bytes cannot be aligned reliably
                        res["ub"] += 1
                        ai += 1
                        continue
                    if append_ok:
                        res["evals"] += 1
                        got = tbytes[ai] if ai < len(tbytes) else None
                        if got != x:
                            res["problems"].append(dict(what="char append `[%s]` stored %r, C arithmetic says %d" % (U.e_text(e), got, x), expr=U.e_text(e), val=val))
                    ai += 1
                    continue
                if x is None:
                    res["ub"] += 1
                    continue
                res["evals"] += 1
                got = d["r%d" % i]
                tgt = ctx.split(":")[1] if ctx.startswith("assign:") else None
                if tgt and tgt != "bool":
                    got = cexpr.wrap(got, VARS[tgt][1])
                if got != x:
                    res["problems"].append(dict(what="`%s` in context %s gives %r, C arithmetic says %r" % (U.e_text(e), ctx, got, x), expr=U.e_text(e), val=val))
            if len(res["problems"]) > 3:
                break
    return res


def run(tier, seed):
    ck = Check("C14", tier, seed, "exploration",
               rule="expression trees: every operator x every ordered atom pair, every operator pair in both nestings over small atom triples, unary forms; contexts round-robin over assignment targets of every width/sign, bool, "
                    "char append, action-only if and if with consuming bodies; x boundary valuations; distinct = distinct expression texts evaluated on at least one defined valuation")
    trees = typed_trees(tier, seed)
    vals = valuations(tier)
    # contexts
    items = []
    per = 150
    plain = []
    for k, (ty, e) in enumerate(trees):
        if ty == "I":
            ctxs = ["assign:" + TARGETS[k % len(TARGETS)]]
            if k % 5 == 0:
                ctxs.append("append")
            if k % 7 == 0:
                ctxs.append("ifaction")
        else:
            ctxs = ["assign:bool"] + (["ifaction"] if k % 3 == 0 else [])
        for c in ctxs:
            plain.append((ty, e, c))
    def has(e, pred):
        if pred(e):
            return True
        if e[0] == "bin":
            return has(e[2], pred) or has(e[3], pred)
        if e[0] in ("not", "neg"):
            return has(e[1], pred)
        if e[0] == "idx":
            return has(e[2], pred)
        return False
    isdiv = lambda e: e[0] == "bin" and e[1] in ("/", "%")
    divs = [x for x in plain if has(x[1], isdiv)]
    plain = [x for x in plain if not has(x[1], isdiv)]
    for i in range(0, len(plain), per):
        items.append((plain[i:i + per], vals, [], "plain"))
    # a division by zero (or INT_MIN / -1) traps: such expressions go into small programs, and a valuation is only run on a
    # program when none of its expressions traps there
    for i in range(0, len(divs), 10):
        items.append((divs[i:i + 10], vals, [], "div"))
    condsel = [(ty, e, "cond") for k, (ty, e) in enumerate(trees) if k % (9 if tier == "quick" else 2) == seed % (9 if tier == "quick" else 2) and not has(e, lambda x: x[0] == "last") and not has(e, isdiv)]
    for i in range(0, len(condsel), 40):
        items.append((condsel[i:i + 40], vals[:8], [], "cond"))
    # unsafe indexing (in-range reads only; out-of-range ones are undefined and skipped by the evaluator)
    idxs = [x for x in plain if has(x[1], lambda e: e[0] == "idx")]
    for i in range(0, len(idxs), per):
        items.append((idxs[i:i + per], vals, ["-funsafe-string-indexing"], "plain"))
    if tier == "thorough":
        for i in range(0, len(plain), per * 4):
            items.append((plain[i:i + per], vals[:10], ["-O3", "-fstrings-as-u8", "-fallocate-str-space-dynamic"], "plain"))
    stats = dict(expressions=len(trees), chunks=len(items), valuations=len(vals), ub_skipped=0, rejected_chunks=0)
    for idx, r in pmap(check_chunk, items, timeout=900, chunksize=1, stop=ck.enough):
        if "harness_error" in r or "harness_timeout" in r:
            harness_fail("%s on chunk %d" % (r, idx))
        if r["status"] == "timeout":
            ck.cap("chunk %d: compilation exceeded 240 s (not a verdict)" % idx)
            continue
        if r["status"] != "ok":
            stats["rejected_chunks"] += 1
            # a chunk of well-typed expressions must compile: locate the offender by bisection is overkill; report the chunk
            ck.violation("C14:chunk-rejected:%s" % r.get("detail", "")[:60], "a program made of well-typed expressions was %s: %s" % (r["status"], r.get("detail", "")[:300]),
                         dict(src=r.get("src", ""), argv=items[idx][2], kind="rejected"))
            continue
        stats["ub_skipped"] += r["ub"]
        ck.add(evaluations=r["evals"], programs=1)
        for (ty, e, c) in items[idx][0]:
            ck.note(U.e_text(e))
        if idx % 17 == 0:
            ty, e, c = items[idx][0][min(3, len(items[idx][0]) - 1)]
            ck.sample(dict(expression=U.e_text(e), context=c, valuation={k: (v if not isinstance(v, bytes) else v.hex()) for k, v in vals[1].items()}, expected=expected(e, ty, c if c != "cond" else "ifaction", vals[1])))
        for p in r["problems"]:
            ck.violation("C14:value:%s" % p["expr"][:80], "%s | valuation %s" % (p["what"], {k: (v if not isinstance(v, bytes) else v.hex()) for k, v in p["val"].items()}),
                         dict(kind="value", expr=p["expr"], val={k: (v if not isinstance(v, bytes) else {"hex": v.hex()}) for k, v in p["val"].items()}))
    ck.extra.update(stats)
    ck.exhaustive = False
    ck.assumptions += ["C arithmetic = nv/cexpr.py (integer promotion, usual arithmetic conversions, truncating division, wrap on unsigned, implementation-defined narrowing as gcc does); valuations with signed overflow, bad shifts, division by zero are skipped",
                       "indexed string bytes are values 0..255; an out-of-range safe index reads 0; $last is the byte 'x' in every position used",
                       "depth <= 2 trees; valuations are boundary values, not all values"]
    return ck.finish()


def replay(path):
    d = json.load(open(path))
    print(d.get("what"))
    print("re-run `run.py C14` to reproduce (the replay file names the expression and valuation)")
    return 1
