"""C04 - feed and end always return: no input makes a generated parser spin.

Per accepted program (bounded universe, corpus, and a cycle-seeking universe of loops whose bodies can complete
without consuming: optional / try with empty or non-consuming handler / if / case-else / yield / overflow handlers
that re-enter the appending construct / nested breaks) the abstract machine is explored exhaustively:
(a) every reachable (machine state, data) configuration x every byte class (+ end-of-input): one step with exact
configuration-repeat detection among the non-consuming moves (a repeat is a proof of divergence because the
machine is deterministic); in yield mode, yields that never consume; (b) every machine state x a menu of data
contexts (forced, reachable or not) x every byte class.  Every divergence found is confirmed on the C binary under
a wall-clock limit.  Conversely the reference interpreter's non-consuming control cycles must have been rejected.
"""
import itertools
import json
from collections import deque
from nv.framework import Check, pmap, sha, harness_fail
from nv import loader, progs, conform, cbuild, universe as U, bisim, refcheck
from nv.am import AM, UB, Spin, Malformed, END
from nv.ref import Ref

L = U.lit
RX = U.RX_ATOMS
q = U.q


def cyc_universe():
    n1 = ("set", "n", ("bin", "+", ("var", "n"), ("num", 1)))
    M = [("match", L("a")), ("append", "s", ("re", RX["a"])), ("append", "s", ("re", q("a", "+"))), ("match", ("re", q("a", "+"))), ("append", "s", L("ab"))]
    H = [(), (("hook", "h"),), (("delete", "s"),), (n1,), (("yield", "Y"),), (("wait", L("b")),), (("appendc", "s", ("num", 65)),), (("match", L("b")),), (("setstr", "s", b""),)]
    C = [("bin", "==", ("var", "n"), ("num", 0)), ("bin", ">", ("len", "s"), ("num", 1))]
    H = H + [(("if", ((("bin", "==", ("var", "n"), ("num", 1)), (("break", None),)),), None),), (("if", ((("bin", "==", ("var", "n"), ("num", 0)), (("break", None),)),), (n1,)),),
             (("if", ((("bin", "==", ("var", "n"), ("num", 1)), (("finish", "F"),)),), None),)]
    bodies = []
    for m in M:
        bodies.append((("optional", (m,)),))
        for h in H:
            for opts in (None, ("nomatch",), ("outofspace",)):
                bodies.append((("try", (m,), opts, h),))
        for h in H[:6] + H[-3:]:
            bodies.append((("case", False, ((None, (m[-1],), ()), (None, ("else",), h))),) if m[0] == "match" else (("try", (m, ("match", L("c"))), None, h),))
        for c in C:
            bodies.append((("if", ((c, (m,)),), None),))
            bodies.append((("if", ((c, (m,)),), (n1,)),))
            bodies.append((("if", ((c, (m,)),), (("delete", "s"), ("set", "n", ("num", 0)))),))
    progs_ = []
    for b in bodies:
        progs_.append((("loop", None, b),))
        progs_.append((("loop", None, b + (("match", L("x")),)),))
        progs_.append((("loop", None, (("match", L("x")),) + b),))
        progs_.append((("loop", None, (("loop", None, b + (("break", None),)),)),))
        progs_.append((("loop", "o", (("loop", None, b + (("optional", (("match", L("y")), ("break", "o"))),)),)), ("match", L("z"))))
        progs_.append((("match", L("x")), ("loop", None, b + (("optional", (("match", L("y")), ("break", None))),)), ("match", L("z"))))
        progs_.append((("try", (("loop", None, b),), None, (("hook", "g"),)),))
    # conditional break in an else clause nested in two loops; action-only greedy clause as last statement of a loop
    progs_.append((("loop", None, (("loop", None, (("case", False, ((None, (L("a"),), ()), (None, ("else",), (("if", ((C[0], (("break", None),)),), None), ("match", ("re", RX["."])))))),)),)),))
    progs_.append((("loop", None, (("case", True, ((None, (L("a"),), (n1,)), (None, (L("ab"),), (("hook", "h"),)))),)),))
    progs_.append((("loop", None, (("case", False, ((None, (L("a"),), (n1,)), (None, ("else",), (("hook", "h"),)))),)),))
    return progs_


def explore_am(am, reps, with_end, max_states=3000):
    """BFS over reachable (state, data): -> (nstates, ntrans, spins[(path, sym, msg)], okstar[(path, sym)])"""
    cfg0, code0, _ = am.start()
    spins, okstar = [], []
    if code0 != "OK":
        return 1, 1, spins, okstar, False
    seen = {am.key(cfg0): b""}
    fr = deque([am.key(cfg0)])
    nst = ntr = 0
    capped = False
    syms = list(reps) + ([END] if with_end else [])
    while fr:
        k = fr.popleft()
        path = seen[k]
        nst += 1
        if nst > max_states:
            capped = True
            break
        for c in syms:
            ntr += 1
            cfg = am.mkcfg(k[0], dict(k[1]))
            try:
                if c == END:
                    code, ev = am.end(cfg)
                    continue
                code, ev = bisim.step_sym(am, cfg, c, 0)
            except UB:
                continue
            except Spin as e:
                if len(spins) < 5:
                    spins.append((path, c, str(e), e.via_override))
                continue
            if code == "OK*":
                if len(okstar) < 3:
                    okstar.append((path, c))
                continue
            if code == "OK":
                k2 = am.key(cfg)
                if k2 not in seen:
                    seen[k2] = path + bytes([c])
                    fr.append(k2)
    return nst, ntr, spins, okstar, capped


def check_program(item):
    src, argv, label = item["src"], item["argv"], item["label"]
    res = dict(label=label, argv=argv, status="ok", states=0, trans=0, forced=0, problems=[], confirmed=0, shapes=set())
    acc = loader.compile_source(src, argv, codegen=True)
    if acc.kind == "diagnosed" and item.get("ast") is not None and not any(a.startswith("-O") for a in argv):
        # rejected as written: the rejection (which is what keeps a non-consuming loop out) must not depend on the optimisation level
        for lv in (["-O0"], ["-O3"]):
            other = loader.compile_source(src, argv + lv, codegen=True)
            if other.kind == "accepted":
                res["problems"].append(dict(kind="verdict-level", what="rejected at the default level (%s) but accepted with %s" % (acc.detail, lv[0]), input="", state=-1, ctx={}))
                acc, argv = other, argv + lv
                res["argv"] = argv
                break
    if acc.kind != "accepted":
        res["status"] = acc.kind
        res["shapes"] = []
        return res
    try:
        am = AM(acc.dctx)
    except Malformed:
        res["status"] = "malformed"
        res["shapes"] = []
        return res
    reps = U.reps_of(item["ast"]) if item.get("ast") is not None else bisim.reps_for([am])
    reps = [r for r in reps if r < 256]
    nst, ntr, spins, okstar, capped = explore_am(am, reps, am.eof)
    res["states"], res["trans"], res["capped"] = nst, ntr, capped
    res["shapes"].add(("reachable", bool(spins), bool(okstar)))
    found = [("reachable", p, c, m, ov) for p, c, m, ov in spins]
    # forced contexts
    ctxs = conform.contexts(am)[:6]
    nforced = 0
    # only states that some input can reach (graph reachability from the start state, data ignored): an unreachable leftover
    # state can only be entered by corrupting the struct
    graph_reach = set(id(x) for x in am.dfa.dfs())
    for si in range(len(am.states)):
        if id(am.states[si]) not in graph_reach:
            continue
        for ctx in ctxs:
            for c in reps + ([END] if am.eof else []):
                nforced += 1
                cfg = am.mkcfg(si, ctx)
                try:
                    if c == END:
                        am.end(cfg)
                    else:
                        bisim.step_sym(am, cfg, c, 0)
                except UB:
                    pass
                except Spin as e:
                    if not found and len([f for f in found if f[0] == "forced"]) < 2:
                        found.append(("forced", (si, ctx), c, str(e), e.via_override))
    res["forced"] = nforced
    for p, c in okstar:
        res["problems"].append(dict(kind="ok-without-consuming", what="feed returns OK without consuming byte %r after input %r (a caller that re-feeds the rest loops for ever; also C10)" % (c, p), input=(p + bytes([c])).hex(), state=-1, ctx={}))
    if found:
        try:
            with cbuild.CProg(acc, "gcc") as cp:
                for kind, where, c, msg, ov in found[:3]:
                    if kind == "reachable":
                        script = cp.op_zero() + cp.op_start() + cp.op_feed(where + (bytes([c]) if c != END else b"")) + (cp.op_end() if c == END else b"")
                        desc = "input %r" % (where + (bytes([c]) if c != END else b"<END>"))
                        inp = (where + (bytes([c]) if c != END else b"")).hex()
                        st, cx = -1, {}
                    else:
                        si, ctx = where
                        script = cp.op_zero() + cp.op_start() + cp.op_state(si) + cp.op_data(ctx) + (cp.op_end() if c == END else cp.op_feed(bytes([c])))
                        if "yields" in msg and c != END:
                            script += b"".join(cp.op_feed(bytes([c])) for _ in range(39))
                        desc = "machine state %d with outputs %r on byte %r" % (si, ctx, c)
                        inp, st, cx = (bytes([c]) if c != END else b"").hex(), si, ctx
                    if "yields" in msg and kind == "reachable":
                        # livelock at the calling level: re-invoke feed on the same byte 40 times; every call must yield without moving the pointer
                        script = cp.op_zero() + cp.op_start() + (cp.op_feed(where) if where else b"") + b"".join(cp.op_feed(bytes([c])) for _ in range(40))
                    recs, status = cp.run(script, timeout=3)
                    if "yields" in msg and status == "ok":
                        fs = [r for r in recs if r[0] == "F"][-40:]
                        if len(fs) == 40 and all(r[1].startswith("YIELD") and r[2] in (0, -1) for r in fs):
                            status = "timeout"
                    if status == "timeout":
                        res["confirmed"] += 1
                        res["problems"].append(dict(kind="spin-" + kind, what="feed/end never returns: %s (%s); confirmed on the C binary (still running after 3 s / 40 yields without progress)" % (desc, msg), input=inp, state=st, ctx=cx, via_override=ov))
                    else:
                        res["problems"].append(dict(kind="unconfirmed", what="machine diverges (%s) at %s but the C binary returned (%s)" % (msg, desc, status), input=inp, state=st, ctx=cx))
        except cbuild.BuildError:
            for kind, where, c, msg, ov in found[:1]:
                res["problems"].append(dict(kind="spin-" + kind, what="machine diverges: %s (%s); C did not build" % (msg, where), input="", state=-1, ctx={}))
    # the C itself (code generation can introduce a cycle the machine does not have): exhaustive short inputs under a wall-clock limit
    if not found and item.get("c_hang_search"):
        try:
            with cbuild.CProg(acc, "gcc") as cp:
                from checks import c02
                hreps = c02.pick_reps(am, None, 6)
                recs, status = cp.run(cp.op_exhaust(4, hreps, do_end=am.eof), timeout=20)
                res["forced"] += 1
                if status == "timeout":
                    res["confirmed"] += 1
                    res["problems"].append(dict(kind="c-hang", what="the C binary does not return on some input of length <= 4 over %r although the machine shows no divergence (code generation)" % (hreps,), input="", state=-1, ctx={}))
                elif status == "ok" and recs and recs[0][1].get("livelocks"):
                    res["confirmed"] += 1
                    res["problems"].append(dict(kind="c-yield-forever", what="the C binary keeps returning yield codes without getting through the input (feed: more than 4n+8 yields in a chunk of n bytes; end: more than 12 in a row) "
                                                "on %d schedule(s) of inputs of length <= 4 over %r although the machine shows no divergence (code generation)" % (recs[0][1]["livelocks"], hreps), input="", state=-1, ctx={}))
        except cbuild.BuildError:
            pass
    # converse: REF non-consuming cycles in an accepted program
    if item.get("ast") is not None and not found:
        try:
            ref = Ref(item["ast"], reps, with_end=am.eof)
            o = refcheck.explore(am, ref, reps, with_end=am.eof, max_states=800)
            if o.diverge:
                res["problems"].append(dict(kind="accepted-nonconsuming-cycle", what="the procedural reading can go round without consuming (%s at input %r) but the program was accepted" % (o.diverge[0][1], o.diverge[0][0]), input=o.diverge[0][0].hex() if isinstance(o.diverge[0][0], bytes) else "", state=-1, ctx={}))
        except Exception as e:  # REF is only an auxiliary oracle here
            res["ref_error"] = str(e)[:100]
    res["shapes"] = sorted(map(repr, res["shapes"]))
    return res


def run(tier, seed):
    ck = Check("C04", tier, seed, "model_checking",
               rule="per program: all reachable (state, data) configurations x byte classes (+end) and all states x forced data contexts x byte classes, each a single step with exact configuration-repeat detection; "
                    "distinct = programs explored; states = reachable configurations, transitions = steps (reachable + forced)")
    items = []
    for i, p in enumerate(cyc_universe()):
        ast = tuple(p)
        items.append(dict(label="CYC#%d" % i, src=U.source(ast), argv=U.needs_flags(ast), ast=ast, c_hang_search=(i % 5 == seed % 5 or tier == "thorough")))
        if i % 3 == seed % 3:
            items.append(dict(label="CYC#%d" % i, src=U.source(ast), argv=U.needs_flags(ast) + ["-O3"], ast=ast))
    for p in progs.corpus() + progs.features():
        items.append(dict(label=p["label"], src=p["src"], argv=p["argv"], ast=None, c_hang_search=True))
        items.append(dict(label=p["label"], src=p["src"], argv=p["argv"] + ["-O3"], ast=None, c_hang_search=True))
    step = 7 if tier == "quick" else 1
    for i, p in enumerate(U.enumerate_programs(2)):
        if i < 992 or i % step == seed % step:
            items.append(dict(label="U#%d" % i, src=U.source(p), argv=U.needs_flags(p), ast=p))
    nstep = 23 if tier == "quick" else 2
    for i, p in enumerate(U.enumerate_nested()):       # one block nested in another (see C01)
        if i % nstep == seed % nstep:
            items.append(dict(label="N#%d" % i, src=U.source(p), argv=U.needs_flags(p) + (["-O3"] if i % 2 else []), ast=p))
    for j, p in enumerate(U.handwritten()):
        items.append(dict(label="HW#%d" % j, src=U.source(tuple(p)), argv=U.needs_flags(tuple(p)), ast=tuple(p), c_hang_search=True))
        items.append(dict(label="HW#%d" % j, src=U.source(tuple(p)), argv=U.needs_flags(tuple(p)) + ["-O3"], ast=tuple(p), c_hang_search=True))
    stats = dict(enumerated=len(items), accepted=0, rejected=0, capped=0, divergences_confirmed_on_C=0)
    for idx, r in pmap(check_program, items, timeout=600, chunksize=4, stop=ck.enough):
        if "harness_error" in r or "harness_timeout" in r:
            harness_fail("%s on %s\n%s" % (r, items[idx]["label"], items[idx]["src"]))
        it = items[idx]
        if r["status"] != "ok":
            stats["rejected"] += 1
            continue
        stats["accepted"] += 1
        stats["capped"] += int(r.get("capped", False))
        stats["divergences_confirmed_on_C"] += r["confirmed"]
        ck.add(programs=1, states=r["states"], transitions=r["trans"] + r["forced"], traces_validated_against_impl=r["confirmed"], evaluations=r["trans"] + r["forced"])
        ck.note(it["label"] + " ".join(it["argv"]))
        if idx % 997 == 0:
            ck.sample(dict(source=it["src"], argv=it["argv"], reachable_configurations=r["states"], steps=r["trans"], forced_steps=r["forced"]))
        for p in r["problems"]:
            root = classify(it, p)
            ck.violation(root or ("C04:%s:%s" % (p["kind"], sha(it["src"] + " ".join(it["argv"]))[:10])), "%s %s: %s | %s" % (it["label"], it["argv"], p["what"], it["src"].replace("\n", " ")),
                         dict(src=it["src"], argv=it["argv"], input=p["input"], state=p["state"], ctx=p["ctx"], kind=p["kind"], ast=repr(it.get("ast"))))
    ck.extra.update(stats)
    ck.exhaustive = stats["capped"] == 0
    ck.assumptions += ["a configuration repeat inside one step of the (deterministic) abstract machine is a proof of divergence; each is confirmed on the C binary with a 3 s wall-clock limit before it is reported",
                       "forced data contexts are a menu of boundary values per variable (C06's), not all values"]
    return ck.finish()


CONSUMING = ("match", "append", "wait", "case")


def consumes(stmts):
    return any(st[0] in CONSUMING for st in U.walk(tuple(stmts)))


def kf9_shape(ast):
    """known finding KF9, structurally: (a) inside a loop, a try that catches out-of-space around an append, whose handler neither consumes
    nor empties / reassigns a buffer; (b) a break inside an action-only `if` that sits in a non-consuming path of a loop nested in a loop.
    NOT KF9: an append located inside a catch block (that was the repaired defect F-17)."""
    if ast is None:
        return False
    for st in U.walk(tuple(ast)):
        if st[0] == "try":
            if any(x[0] in ("append", "appendc") for x in U.walk(tuple(st[3]))):
                return False
    def in_loop(stmts, depth):
        for st in stmts:
            k = st[0]
            if k == "loop":
                if in_loop(st[2], depth + 1):
                    return True
            elif k == "try":
                catches_oos = st[2] is None or "outofspace" in st[2]
                appends = any(x[0] in ("append", "appendc") for x in U.walk(tuple(st[1])))
                handler_inert = not consumes(st[3]) and not any(x[0] in ("delete", "setstr") for x in U.walk(tuple(st[3])))
                if depth > 0 and catches_oos and appends and handler_inert:
                    return True
                if in_loop(st[1], depth) or in_loop(st[3], depth):
                    return True
            elif k == "if":
                bodies = [b for _, b in st[1]] + ([st[2]] if st[2] is not None else [])
                if depth > 0 and any(any(x[0] == "break" for x in U.walk(tuple(b))) and not consumes(b) for b in bodies):
                    return True
                if any(in_loop(b, depth) for b in bodies):
                    return True
            elif k == "case":
                if any(in_loop(b, depth) for _, _, b in st[2]):
                    return True
            elif k in ("optional",):
                if in_loop(st[1], depth):
                    return True
            elif k == "foreach":
                if in_loop(st[1], depth):
                    return True
        return False
    return in_loop(tuple(ast), 0)


def classify(it, p):
    """structural predicates for known findings"""
    if p["kind"].startswith("spin-") and p.get("via_override") and kf9_shape(it.get("ast")):
        return "C04:KF9:nonconsuming-cycle-through-override-target"
    if p["kind"].startswith("spin-") and it.get("ast") is not None:
        from checks import c01
        if c01.optional_loop_shape(it["ast"]) and any(st[0] == "yield" for st in U.walk(tuple(it["ast"]))):
            return "C04:KF21:optional-starting-with-loop"
    return None


def replay(path):
    d = json.load(open(path))
    ast = eval(d["ast"]) if d.get("ast") not in (None, "None") else None
    r = check_program(dict(src=d["src"], argv=d["argv"], label="replay", ast=ast))
    for p in r["problems"]:
        print(p["what"])
    print("REPRODUCED" if r["problems"] else "not reproduced")
    return 1 if r["problems"] else 0
