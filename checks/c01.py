"""C01 - accepted programs behave as their procedural reading prescribes.

Every program of the bounded universe (our own AST, printed to source) that the compiler accepts is explored
jointly with the reference interpreter REF (nv/ref.py, lazy normal form of the procedural reading) and the
abstract machine over the compiled DFA: every reachable (machine state, data, REF configuration, lead buffer)
over the representatives of the source byte classes.  Events (hook calls with visible outputs, appends,
self-referential assignments, yields, finishes), result codes and final outputs must agree up to exactly the
slack the property grants.  BFS witness inputs are replayed on the C binary (one chunk and byte-wise).
"""
import json
from nv.framework import Check, pmap, sha, harness_fail
from nv import loader, progs, conform, cbuild, refcheck, universe as U, deriv as D
from nv.am import AM, Malformed
from nv.ref import Ref

PLAIN = ("setstr", "delete")


def open_ended(m):
    r = U.m_core(m)
    syms = sorted(set().union(*[s for s in D.symbols_of(r)]) or {0})
    reps = D.representatives(D.partition(D.symbols_of(r)))
    dfa = D.Dfa(r, reps)
    try:
        for q in dfa.reachable(500):
            if D.nullable(q) and any(not dfa.dead(D.deriv(q, c)) for c in reps):
                return True
    except OverflowError:
        return True
    return False


def is_plain(st):
    if st[0] in PLAIN:
        return True
    if st[0] == "set":
        return st[1] not in set(U.e_names(st[2]))
    return False


def early_plain_shape(stmts):
    """known finding KF13: a plain (non self-referential) assignment / delete directly after an open-ended match"""
    def seq(ss):
        for i, st in enumerate(ss):
            k = st[0]
            nxt = ss[i + 1] if i + 1 < len(ss) else None
            if k in ("match", "append") and open_ended(st[-1]) and nxt is not None and is_plain(nxt):
                return True
            if k == "case":
                for pr, pats, body in st[2]:
                    op = any(p != "else" and open_ended(p) for p in pats)
                    if op and ((body and is_plain(body[0])) or (not body and nxt is not None and is_plain(nxt))):
                        return True
                    if seq(body):
                        return True
            for sub in subs(st):
                if seq(sub):
                    return True
        return False

    def subs(st):
        k = st[0]
        if k == "loop":
            return [st[2]]
        if k == "optional":
            return [st[1]]
        if k == "try":
            return [st[1], st[3]]
        if k == "foreach":
            return [st[1]]
        if k == "if":
            return [b for _, b in st[1]] + ([st[2]] if st[2] is not None else [])
        return []
    return seq(tuple(stmts))


def yield_in_if_shape(stmts):
    """known finding KF22: an `if` one of whose branches contains a yield at its top level"""
    for st in U.walk(tuple(stmts)):
        if st[0] == "if":
            bodies = [b for _, b in st[1]] + ([st[2]] if st[2] is not None else [])
            if any(any(x[0] == "yield" for x in b) for b in bodies):
                return True
    return False


def optional_loop_shape(stmts):
    """known finding KF21: an optional block whose first statement is a loop (the loop head is the optional's entry state)"""
    for st in U.walk(tuple(stmts)):
        if st[0] == "optional" and st[1] and st[1][0][0] == "loop":
            return True
    return False


KNOWN_SHAPES = [("C01:KF13:early-plain-assignment", lambda ast: early_plain_shape(ast)),
                ("C01:KF22:yield-inside-if", yield_in_if_shape),
                ("C01:KF21:optional-starting-with-loop", optional_loop_shape)]


def check_program(item):
    stmts, label, want_c, cap, levels = item["ast"], item["label"], item["want_c"], item["cap"], item["levels"]
    src = U.source(stmts)
    argv0 = U.needs_flags(stmts) + [x for x in item.get("extra", []) if x not in U.needs_flags(stmts)]
    res = dict(label=label, src=src, status="ok", states=0, trans=0, creplay=0, problems=[], shapes=set(), spins=0, amb=0, div=0, ub=0, capped=0)
    first = True
    for lv in levels:
        argv = argv0 + lv
        do_c = want_c and (first or item.get("c_all_levels"))
        acc = loader.compile_source(src, argv, codegen=do_c)
        if acc.kind != "accepted":
            if first:
                res["status"] = acc.kind
                res["detail"] = acc.detail
                res["shapes"] = []
                return res
            res["problems"].append(dict(kind="verdict", what="accepted with %s but %s with %s" % (argv0 + levels[0], acc.kind, argv), path="", argv=argv))
            continue
        if U.doc_error_optional(stmts):
            res["status"] = "doc-error-optional"
            res["shapes"] = []
            return res
        try:
            am = AM(acc.dctx)
        except Malformed as e:
            res["status"] = "malformed"
            res["shapes"] = []
            return res
        reps = U.reps_of(stmts)
        ref = Ref(stmts, reps, with_end=am.eof)
        o = refcheck.explore(am, ref, reps, with_end=am.eof, max_states=cap, want_witnesses=16 if do_c else 0)
        res["states"] += o.states
        res["trans"] += o.trans
        res["shapes"] |= o.shapes
        res["spins"] += len(o.spins)
        res["amb"] += len(o.ambiguous)
        res["div"] += len(o.diverge)
        res["ub"] += o.skipped_ub
        if o.status == "capped":
            res["capped"] += 1
        if o.problem:
            res["problems"].append(dict(kind="mismatch", what=o.problem, path=(o.path or b"").hex(), argv=argv))
        elif do_c and o.witnesses:
            try:
                with cbuild.CProg(acc, "gcc0") as cp:
                    for w in o.witnesses:
                        prob, n = conform.replay_input(cp, am, w, end=am.eof)
                        res["creplay"] += 1
                        if prob:
                            res["problems"].append(dict(kind="creplay", what=prob, path=w.hex(), argv=argv))
                            break
            except cbuild.BuildError as e:
                res["cbuild_failed"] = 1
        first = False
    res["shapes"] = sorted(map(repr, res["shapes"]))
    return res


def items_for(tier, seed):
    items = []
    if tier == "quick":
        lvls = [[]]
        gen = [(i, p) for i, p in enumerate(U.enumerate_programs(2)) if i < 992 or i % 9 == seed % 9]
        cmod = 23
        cap = 1500
    else:
        lvls = [[], ["-O0"], ["-O3"]]
        gen = list(enumerate(U.enumerate_programs(3)))
        cmod = 11
        cap = 6000
    for j, p in enumerate(U.handwritten()):
        items.append(dict(ast=tuple(p), label="HW#%d" % j, want_c=True, cap=cap, levels=[[], ["-O0"], ["-O3"]], c_all_levels=True))
    # one block nested in another (20 196 programs): a rotating tenth in the quick tier, all of them in the thorough tier
    for i, p in enumerate(U.enumerate_nested()):
        if tier == "quick" and i % 10 != seed % 10:
            continue
        items.append(dict(ast=p, label="N#%d" % i, want_c=(i % (cmod * 3) == seed % (cmod * 3)), cap=cap,
                          levels=[[], ["-O3"]] if i % 2 else [[], ["-O0"]]))
    for i, p in gen:
        lv = lvls if tier != "quick" else ([[], ["-O3"]] if i % 4 == seed % 4 else ([[], ["-O0"]] if i % 4 == (seed + 1) % 4 else [[]]))
        items.append(dict(ast=p, label="U#%d" % i, want_c=(i % cmod == seed % cmod), cap=cap, levels=lv))
    return items


def run(tier, seed):
    ck = Check("C01", tier, seed, "model_checking",
               rule="every program of the bounded universe (leaf sequences <= 2 over the full menus; one block with bodies <= 2 and <= 1 statement before/after; case and if shapes; "
                    "one block nested in another - every pair of block kinds - with <= 1 statement around the inner one); "
                    "accepted ones explored jointly with the reference interpreter to a fixpoint; distinct = (program, (REF outcome kind, machine result code, step carried events)) pairs")
    items = items_for(tier, seed)
    stats = dict(enumerated=len(items), accepted=0, rejected=0, internal=0, capped=0, machine_spins_left_to_C04=0, ambiguity_witnesses_left_to_C09=0,
                 ref_divergence_left_to_C04=0, ub_skipped=0, cbuild_failed=0, doc_error_optional_not_judged=0)
    for idx, r in pmap(check_program, items, timeout=600, chunksize=8, stop=ck.enough):
        if "harness_error" in r or "harness_timeout" in r:
            harness_fail("%s on %s\n%s" % (r, items[idx]["label"], U.source(items[idx]["ast"])))
        if r["status"] == "doc-error-optional":
            stats["doc_error_optional_not_judged"] += 1
            continue
        if r["status"] != "ok":
            stats["rejected"] += 1
            if r["status"] in ("internal", "timeout"):
                stats["internal"] += 1
            continue
        stats["accepted"] += 1
        stats["capped"] += r["capped"]
        stats["machine_spins_left_to_C04"] += r["spins"]
        stats["ambiguity_witnesses_left_to_C09"] += r["amb"]
        stats["ref_divergence_left_to_C04"] += r["div"]
        stats["ub_skipped"] += r["ub"]
        stats["cbuild_failed"] += r.get("cbuild_failed", 0)
        ck.add(programs=1, states=r["states"], transitions=r["trans"], traces_validated_against_impl=r["creplay"], evaluations=1)
        for s in r["shapes"]:
            ck.note((idx, s))
        if r["capped"]:
            ck.cap(r["label"])
        if idx % 4001 == 0:
            ck.sample(dict(source=r["src"], product_states=r["states"], shapes=r["shapes"][:6]))
        for p in r["problems"]:
            it = items[idx]
            sig = None
            if p["kind"] == "mismatch":
                sig = next((k for k, pred in KNOWN_SHAPES if pred(it["ast"])), None)
            if sig is None:
                sig = "C01:%s:%s:%s" % (p["kind"], p["what"].split("|")[0][:40].strip(), sha(r["src"])[:10])
            ck.violation(sig, "%s %s | input %s | %s" % (p["what"], p["argv"], p["path"], r["src"].replace("\n", " ")),
                         dict(src=r["src"], argv=p["argv"], path=p["path"], ast=repr(it["ast"]), kind=p["kind"]))
    ck.extra.update(stats)
    ck.exhaustive = stats["capped"] == 0
    ck.assumptions += [
        "REF (nv/ref.py) is the procedural reading; spec-open points where a set is accepted: (i) an unclaimed symbol at the end of the program reached through a lookahead decision is either a mismatch at the deciding construct or left unconsumed after DONE; "
        "(ii) the order, for one byte, of its own append and the each-actions of an enclosing foreach; (iii) a char-append that directly follows a consumed byte and overflows may hand the handler that byte or the next; (iv) hook arguments are not compared (they are the C's `inval`, decided under C06)",
        "machine divergence (C04), ambiguity witnesses (C09) and C-undefined valuations met during the search are counted and left to their own checks",
        "programs with an optional whose first statement does not match input (a try, an if, a case with an else clause, an action) are an error by the reference that nmfu does not always diagnose; they are compiled (a crash is C18's) but not judged",
        "the order of the each-actions of nested foreach blocks for one byte is not specified; both orders are accepted",
        "bytes are represented by the lowest and highest member of every block of the source partition (every literal, set, range, class and byte constant written in the program)",
    ]
    return ck.finish()


def replay(path):
    d = json.load(open(path))
    ast = eval(d["ast"])
    r = check_program(dict(ast=ast, label="replay", want_c=True, cap=6000, levels=[[a for a in d["argv"] if a.startswith("-O")]]))
    for p in r["problems"]:
        print(p["what"], p["path"])
    print("REPRODUCED" if r["problems"] else "not reproduced (%s)" % r["status"])
    return 1 if r["problems"] else 0
