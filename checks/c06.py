"""C06 - emitted C executes exactly the compiled state machine.

Per program and option set: EVERY state index x EVERY byte 0..255 (+ end-of-input with EOF support) x a set of
data contexts is forced into the C state struct, one symbol is fed, and result code, consumed count, hook
calls with visible outputs, next state and output image are compared with the AM's step on the compiler's
own DFA objects; start() is compared with the AM's start; 2-byte chunks cover the in-feed jump paths.
"""
import json
import os
from nv.framework import Check, pmap, sha, harness_fail
from nv import loader, progs, conform, cbuild
from nv.am import AM, UB, Spin, Malformed, END, well_formed

OPTSETS_Q = [[], ["-O3"], ["-O1", "-feof-support", "-fstrict-done-token-generation", "-findirect-start-ptr"], ["-O3", "-findirect-start-ptr", "-fstrict-done-token-generation"], ["-O2", "-fallocate-str-space-dynamic-on-demand", "-fdelete-string-free-memory", "-fstrings-as-u8", "-fhook-per-state", "-fno-hook-global"]]
OPTSETS_T = OPTSETS_Q + [["-O0"], ["-O1", "-fallocate-str-space-dynamic", "-findirect-start-ptr", "-fuse-packed-enums"],
                         ["-O2", "--collapsed-range-length", "1", "-fzero-len-input-support"], ["-O3", "--max-shortcircuit-fallthrough", "0"],
                         ["-O2", "-feof-support", "-fyield-support"], ["-O3", "-funsafe-string-indexing", "-finclude-user-ptr"]]


def check_program(item):
    src, argv, label = item["src"], item["argv"], item["label"]
    res = dict(label=label, argv=argv, steps=0, states=0, ub=0, spin=0, problems=[], status="ok", outcomes=set())
    acc = loader.compile_source(src, argv)
    if acc.kind != "accepted":
        res["status"] = acc.kind
        return fin(res)
    try:
        am = AM(acc.dctx)
        ctxs = conform.contexts(am)
    except Malformed as e:
        res["status"] = "malformed:" + str(e)
        return fin(res)
    wf = well_formed(am)
    if wf:
        res["problems"].append(dict(kind="wellformed", what="; ".join(wf[:3]), state=-1, sym=-1, ctx={}))
    try:
        cp = cbuild.CProg(acc, "gcc0")
    except cbuild.BuildError as e:
        res["status"] = "cbuild_failed"
        res["detail"] = str(e)[:400]
        return fin(res)
    with cp:
        nst = len(am.states)
        res["states"] = nst
        syms = list(range(256)) + ([END] if am.eof else [])
        # ---- start()
        cfg0, code0, ev0 = am.start()
        ops = [cp.op_zero(), cp.op_start(), cp.op_snap()]
        expects = [("start", dict(code=code0, raw=code0, consumed=0, hooks=conform.hooks_of(ev0), state=am.state_index(cfg0), data=cfg0["data"]), None)]
        # ---- forced single steps
        second = sorted(set([0x61, 0x62, 0x00, 0xff, 0x30]))
        nullable = cp.nullable_strings()
        null_ctx = [any(len(ctx[nm]) == 0 for nm in nullable) for ctx in ctxs]
        for si in range(nst):
            for ci, ctx in enumerate(ctxs):
                for sym in syms:
                    try:
                        e = conform.am_step(am, si, ctx, sym)
                    except UB:
                        res["ub"] += 1
                        continue
                    except Spin:
                        res["spin"] += 1
                        continue
                    e["consumed"] = e["adv"]
                    ops.append(cp.op_state(si) + cp.op_data(ctx) + (cp.op_end() if sym == END else cp.op_feed(bytes([sym]))) + cp.op_snap())
                    expects.append(("step", e, (si, sym, ci)))
                    if null_ctx[ci]:
                        # the same abstract context with empty on-demand strings represented by NULL (as after start() or a freeing delete)
                        ops.append(cp.op_state(si) + cp.op_data(ctx, null_empty=True) + (cp.op_end() if sym == END else cp.op_feed(bytes([sym]))) + cp.op_snap())
                        expects.append(("step", e, (si, sym, ci)))
                    res["outcomes"].add((e["raw"], len(e["hooks"]), e["state"] == si))
                # two-byte chunks (first byte over a few values, second over a few): in-feed jump paths
                if ci < 2:
                    for b1 in second:
                        for b2 in second:
                            try:
                                cfg = am.mkcfg(si, ctx)
                                code, cons, ev = am.feed(cfg, bytes([b1, b2]))
                            except (UB, Spin):
                                continue
                            e = dict(code=code, raw=code, consumed=cons, hooks=conform.hooks_of(ev), state=am.state_index(cfg), data=cfg["data"])
                            ops.append(cp.op_state(si) + cp.op_data(ctx) + cp.op_feed(bytes([b1, b2])) + cp.op_snap())
                            expects.append(("step2", e, (si, (b1, b2), ci)))
        recs, status = cp.run(b"".join(ops), timeout=120)
        if status != "ok":
            # locate the failing op by running with per-op flushing
            recs, status2 = cp.run(b"".join(ops), timeout=120, env={"DRV_FLUSH": "1"})
            res["problems"].append(dict(kind="crash", what="C run ended with %s after %d records: %s" % (status, len(recs), cp.stderr[-300:]), state=-1, sym=-1, ctx={}))
            return fin(res)
        pos = 0
        for kind, e, where in expects:
            if kind == "start":
                # records: hooks..., S, N
                hooks = []
                while recs[pos][0] == "H":
                    hooks.append(recs[pos])
                    pos += 1
                s_, n_ = recs[pos], recs[pos + 1]
                pos += 2
                prob = None
                if s_[1] != e["code"]:
                    prob = "start() returned %s, machine says %s" % (s_[1], e["code"])
                elif [(h[1], h[2]) for h in hooks] != [(h[0], h[1]) for h in e["hooks"]]:
                    prob = "start() hooks differ"
                elif n_[1] != e["state"]:
                    prob = "start state C=%d AM=%d" % (n_[1], e["state"])
                else:
                    prob = conform.data_eq(am.spec, n_[2], n_[3], e["data"])
                    if prob:
                        prob = "outputs after start(): " + prob
                if prob:
                    res["problems"].append(dict(kind="start", what=prob, state=-1, sym=-1, ctx={}))
                res["steps"] += 1
                continue
            pos, prob = conform.compare_step(cp, recs, pos, e, am, where)
            res["steps"] += 1
            if prob and len(res["problems"]) < 5:
                si, sym, ci = where
                res["problems"].append(dict(kind=kind, what=prob, state=si, sym=sym, ctx=ctxs[ci]))
            if prob and prob.startswith("C output ended"):
                break
    return fin(res)


def fin(res):
    res["outcomes"] = sorted(map(repr, res.get("outcomes", ())))
    return res


def programs(tier, seed):
    items = []
    optsets = OPTSETS_Q if tier == "quick" else OPTSETS_T
    base = progs.corpus() + progs.features()
    if tier == "quick":
        uni = progs.universe_slice(2, step=997, offset=seed)[:120] + progs.universe_slice(1, step=9, offset=seed)
    else:
        uni = progs.universe_slice(2, step=53, offset=seed) + progs.universe_slice(1, step=2, offset=seed)
    import re
    for p in base:
        for o in optsets:
            items.append(dict(label=p["label"], src=p["src"], argv=p["argv"] + o))
        if tier == "quick" and re.search(r"[A-Za-z_0-9]\[[^\]]", re.sub(r"/(?:[^/\\\n]|\\.)+/", "", p["src"])):
            # programs that index a string: also without the bounds check (the byte is then read straight from the buffer)
            items.append(dict(label=p["label"], src=p["src"], argv=p["argv"] + ["-funsafe-string-indexing"]))
    for i, p in enumerate(uni):
        for o in (optsets if tier == "thorough" else [optsets[i % len(optsets)]]):
            items.append(dict(label=p["label"], src=p["src"], argv=p["argv"] + o))
    return items


def run(tier, seed):
    ck = Check("C06", tier, seed, "model_checking",
               rule="forced single steps (state index x symbol 0..255/end x data context) and 2-byte chunks compared C vs AM; "
                    "distinct = distinct (program, outcome shape) pairs where outcome shape = (result code, #hooks, state changed)")
    items = programs(tier, seed)
    stats = dict(accepted=0, rejected=0, cbuild_failed=0, ub_skipped=0, spin_skipped=0)
    for idx, r in pmap(check_program, items, timeout=600, chunksize=1, stop=ck.enough):
        if "harness_error" in r or "harness_timeout" in r:
            harness_fail("%s on %s" % (r, items[idx]["label"]))
        if r["status"] == "cbuild_failed":
            stats["cbuild_failed"] += 1
            continue
        if r["status"] != "ok":
            stats["rejected"] += 1
            continue
        stats["accepted"] += 1
        stats["ub_skipped"] += r["ub"]
        stats["spin_skipped"] += r["spin"]
        ck.add(programs=1, states=r["states"], transitions=r["steps"], traces_validated_against_impl=r["steps"], evaluations=r["steps"])
        for o in r["outcomes"]:
            ck.note((r["label"], o))
        if len(ck.samples) < 5 and r["steps"]:
            ck.sample(dict(program=r["label"], argv=r["argv"], states=r["states"], steps=r["steps"], outcome_shapes=r["outcomes"][:6]))
        for p in r["problems"]:
            it = items[idx]
            sig = "C06:%s:%s" % (p["kind"], p["what"].split(" C=")[0][:50])
            ck.violation(sig + ":" + sha(it["src"] + " ".join(it["argv"]))[:10],
                         "%s %s: state %s symbol %s: %s" % (it["label"], it["argv"], p["state"], p["sym"], p["what"]),
                         dict(kind=p["kind"], src=it["src"], argv=it["argv"], state=p["state"], sym=p["sym"], ctx=p["ctx"]))
    ck.extra.update(stats)
    ck.exhaustive = True
    ck.assumptions += [
        "gcc 12 at -O0 on x86-64 stands for 'the C'; plain char is signed",
        "valuations on which the C expression has undefined behaviour (signed overflow, bad shift, unsafe index out of range, read of a never-written buffer byte) are skipped, not guessed",
        "programs whose emitted C does not build are counted (cbuild_failed) and left to C11",
        "data contexts are a finite menu per variable (boundary values, empty/full/partial buffers), not all values",
    ]
    return ck.finish()


def replay(path):
    d = json.load(open(path))
    r = check_program(dict(src=d["src"], argv=d["argv"], label="replay"))
    for p in r["problems"]:
        print(p)
    print("REPRODUCED" if r["problems"] else "not reproduced (status %s)" % r["status"])
    return 1 if r["problems"] else 0
