"""C03 - generated parsers are memory-safe and respect output capacities.

Stateless exhaustive exploration of the real C built with clang AddressSanitizer + UndefinedBehaviorSanitizer
+ LeakSanitizer: buffer-heavy 'operation interpreter' programs (every input byte selects one append / char-append /
assignment / delete / length / index operation on str[2], unterminated str[2], raw{uint16_t}, str[3] with default,
str[4]) plus corpus and feature programs, under every string-storage configuration x optimisation level, on EVERY
string <= L over the selector alphabet, fed in one chunk and byte-wise (chunks in exact-size heap buffers, state
struct on the heap), followed by the parser's free function.  Runtime monitors: the sanitizers, and an in-driver
invariant after every call: counter <= capacity, terminator present, pointer non-NULL when length > 0, sentinel
outputs declared after each buffer intact, all pointers NULL after free.  Constants that do not fit must be
rejected at compile time.
"""
import json
from nv.framework import Check, pmap, sha, harness_fail
from nv import loader, progs, cbuild, strprogs, conform
from nv.am import AM, Malformed
from checks import c02


def check_item(item):
    src, argv, label = item["src"], item["argv"], item["label"]
    res = dict(label=label, argv=argv, status="ok", strings=0, feeds=0, problems=[])
    acc = loader.compile_source(src, argv)
    if acc.kind != "accepted":
        res["status"] = acc.kind
        res["detail"] = acc.detail
        return res
    if item.get("alphabet"):
        reps = item["alphabet"]
    else:
        try:
            reps = c02.pick_reps(AM(acc.dctx), None, 4)
        except Malformed:
            res["status"] = "malformed"
            return res
    eof = loader.flag("EOF_SUPPORT")
    try:
        cp = cbuild.CProg(acc, "asan0", sentinels=item.get("sentinels"))
    except cbuild.BuildError as e:
        res["status"] = "cbuild_failed"
        return res
    with cp:
        L = item["L"]
        # the state struct is filled with 0xAA before every start(): whatever start() leaves untouched is visible as such
        script = cp.op_poison(0xAA) + cp.op_exhaust(L, reps[:7], do_end=eof, digest=True) + cp.op_exhaust(max(L - 1, 1), reps[:7], do_end=eof, digest=True, bytewise=True)
        recs, status = cp.run(script, timeout=300)
        if status == "timeout":
            res["status"] = "hang"
            return res
        if status != "ok":
            err = cp.stderr
            kind = "sanitizer" if ("Sanitizer" in err or "runtime error" in err) else "crash"
            line = next((l for l in err.splitlines() if "ERROR" in l or "runtime error" in l or "SUMMARY" in l), err[-200:])
            res["problems"].append(dict(kind=kind, what="%s: %s" % (status, line.strip()[:300])))
            return res
        # outputs against the abstract machine on witness inputs (length counter == bytes stored; overflow raised instead of stored)
        try:
            am = AM(acc.dctx)
            wits = conform.am_witnesses(am, reps[:7], limit=12, maxlen=16) + [bytes([reps[0]]) * 6, bytes(reps[:3]) * 3]
            for w in wits:
                prob, n = conform.replay_input(cp, am, w, end=eof, chunkings=("one",))
                if prob:
                    res["problems"].append(dict(kind="outputs", what=prob[:300]))
                    break
        except Malformed:
            pass
        for r in recs:
            res["strings"] += r[1]["strings"]
            res["feeds"] += r[1]["feeds"]
            if r[1]["invariant_hits"]:
                res["problems"].append(dict(kind="invariant", what="%d invariant hits (counter > capacity / missing terminator / NULL buffer with length / sentinel overwritten / pointer alive after free)" % r[1]["invariant_hits"]))
                break
    return res


def check_reject(item):
    src, why, argv = item["src"], item["why"], item["argv"]
    acc = loader.compile_source(src, argv)
    if acc.kind in ("diagnosed",):
        return dict(status="rejected", problems=[])
    if acc.kind != "accepted":
        return dict(status=acc.kind, problems=[])      # internal errors are C18's subject
    # accepted: does it at least run clean?
    what = "constant that does not fit was accepted (%s)" % why
    try:
        with cbuild.CProg(acc, "asan0") as cp:
            recs, status = cp.run(cp.op_start() + cp.op_feed(b"aa") + cp.op_snap(), timeout=30)
            if status != "ok":
                what += "; at run time: %s %s" % (status, next((l for l in cp.stderr.splitlines() if "ERROR" in l or "runtime error" in l), "").strip()[:200])
    except cbuild.BuildError:
        what += "; emitted C does not build"
    return dict(status="accepted", problems=[dict(kind="accepted-overlong", what=what)])


def dispatch(item):
    return check_reject(item) if item.get("reject") else check_item(item)


def run(tier, seed):
    ck = Check("C03", tier, seed, "model_checking",
               rule="(program, storage configuration, level) builds under ASan+UBSan+LSan x every string <= L over the selector alphabet, one chunk and byte-wise; "
                    "distinct = builds whose exploration covered >= 100 strings; states = strings, transitions = feed calls")
    items = []
    L = 5 if tier == "quick" else 6
    sp = strprogs.programs()
    for i, p in enumerate(sp):
        for j, st in enumerate(strprogs.STORAGE):
            if p.get("storage_only") is not None and st not in p["storage_only"]:
                continue
            for k, lv in enumerate(strprogs.LEVELS):
                if tier == "quick" and (i + j + k + seed) % 3 != 0 and p.get("storage_only") is None:
                    continue
                zl = ["-fzero-len-input-support"] if (i + 2 * j + k) % 4 == 0 else []      # empty chunks at the end of exactly sized buffers
                items.append(dict(label=p["label"], src=p["src"], argv=st + lv + zl, alphabet=p["alphabet"], sentinels=p["sentinels"], L=L))
                if not p["uses_oob_index"] and st in ([], ["-fallocate-str-space-dynamic-on-demand"]):
                    items.append(dict(label=p["label"], src=p["src"], argv=st + lv + ["-funsafe-string-indexing"], alphabet=p["alphabet"], sentinels=p["sentinels"], L=L))
    base = progs.corpus() + progs.features()
    for i, p in enumerate(base):
        for j, st in enumerate([[], ["-fallocate-str-space-dynamic-on-demand", "-fdelete-string-free-memory"], ["-fallocate-str-space-dynamic", "-O3"]]):
            if tier == "quick" and (i + j + seed) % 3 != 0:
                continue
            zl = ["-fzero-len-input-support"] if (i + j) % 2 == 0 and "-fzero-len-input-support" not in p["argv"] else []
            items.append(dict(label=p["label"], src=p["src"], argv=p["argv"] + st + zl, L=3 if tier == "quick" else 4))
    for src, why in strprogs.MUST_REJECT:
        for st in ([], ["-fallocate-str-space-dynamic"]):
            items.append(dict(reject=True, src=src, why=why, argv=st, label="reject"))
    stats = dict(items=len(items), builds=0, rejected=0, cbuild_failed=0, hangs_left_to_C04=0, overlong_constants_rejected=0)
    for idx, r in pmap(dispatch, items, timeout=900, chunksize=1, stop=ck.enough):
        if "harness_error" in r or "harness_timeout" in r:
            harness_fail("%s on %s" % (r, items[idx]["label"]))
        it = items[idx]
        if it.get("reject"):
            if r["status"] == "rejected":
                stats["overlong_constants_rejected"] += 1
        elif r["status"] == "cbuild_failed":
            stats["cbuild_failed"] += 1
            continue
        elif r["status"] == "hang":
            stats["hangs_left_to_C04"] += 1
            continue
        elif r["status"] != "ok":
            stats["rejected"] += 1
            continue
        else:
            stats["builds"] += 1
            ck.add(programs=1, states=r["strings"], transitions=r["feeds"], traces_validated_against_impl=r["strings"], evaluations=r["strings"])
            if r["strings"] >= 100:
                ck.note(it["label"] + " ".join(it["argv"]))
            if idx % 37 == 0:
                ck.sample(dict(program=it["label"], argv=it["argv"], strings=r["strings"], feed_calls=r["feeds"], alphabet=bytes(it.get("alphabet") or []).decode("latin-1")))
        for p in r["problems"]:
            ck.violation("C03:%s:%s:%s" % (p["kind"], p["what"][:40], sha(it["src"] + " ".join(it["argv"]))[:8]), "%s %s: %s" % (it["label"], it["argv"], p["what"]),
                         dict(src=it["src"], argv=it["argv"], alphabet=it.get("alphabet"), L=it.get("L", 3), reject=bool(it.get("reject")), why=it.get("why"), sentinels=it.get("sentinels")))
    ck.extra.update(stats)
    ck.exhaustive = True
    ck.assumptions += ["clang 14 ASan/UBSan/LSan at -O0 (every load/store of the generated text is executed and instrumented) as the runtime monitor; chunks live in exactly sized heap blocks, so a read of *end is an overflow; overruns inside the state struct are caught by sentinel outputs declared after each buffer",
                       "reads of buffer bytes that were never written are avoided by the programs (MemorySanitizer is not used)",
                       "capacity/overflow *routing* (which handler runs) is decided under C01/C06; here only that no store happens beyond the capacity"]
    return ck.finish()


def replay(path):
    d = json.load(open(path))
    it = dict(src=d["src"], argv=d["argv"], label="replay", alphabet=d.get("alphabet"), L=d.get("L", 4), reject=d.get("reject"), why=d.get("why"), sentinels=d.get("sentinels"))
    r = dispatch(it)
    for p in r["problems"]:
        print(p["what"])
    print("REPRODUCED" if r["problems"] else "not reproduced")
    return 1 if r["problems"] else 0
