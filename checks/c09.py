"""C09 - acceptance implies one-byte-lookahead unambiguity.

(a) all statement pairs `A; B`, `optional {A} B`, `loop {A} ...` over a 14-match menu and (b) all case pattern
sets of C08: exact language-theoretic decision on independently built derivative automata (is there an accepting
configuration q of A and a byte c with delta_A(q,c) live and c in First(B); are clause languages of a non-greedy
case pairwise disjoint and prefix-free; does every greedy tie have a unique top priority).
(c) every accepted program of the bounded universe: the reference interpreter raises an ambiguity witness whenever,
at a reachable decision point, the next byte both continues the current statement and starts what follows
(or completes one case clause while another clause continues) - searched over all reachable product states.
Accepted AND ambiguous = violation (with the witness input).  Unambiguous-but-rejected is only counted.
"""
import itertools
import json
from nv.framework import Check, pmap, sha, harness_fail
from nv import loader, universe as U, refcheck, deriv as D
from nv.am import AM, Malformed
from nv.ref import Ref
from checks import c08

L = U.lit
RX = U.RX_ATOMS
q = U.q
MENU = [
    L("a"), L("ab"), L("b"), L("ba"), ("re", q("a", "+")), ("re", ("seq", (q("a", "*"), RX["b"]))), ("re", ("seq", (q("a", "?"), RX["b"]))),
    ("re", ("seq", (RX["[ab]"], q("c", "?")))), ("re", RX["[^a]"]), ("re", q("[^a]", "+")), ("re", RX["."]), ("re", q("a", "*")),
    ("re", q(("seq", (RX["a"], RX["b"])), "+")), ("re", q("b", "?")),
    # two-byte patterns that start with an inverted set / the wildcard: the continuation runs through an Else transition into a non-accepting state
    ("re", ("seq", (RX["[^a]"], RX["b"]))), ("re", ("seq", (RX["."], RX["c"]))),
]


def reach_pairs(ra, reps):
    dfa = D.Dfa(ra, reps)
    return dfa, dfa.reachable(2000)


def ambiguous_seq(ra, rb, reps):
    """exists accepting q of A and byte c: A continues on c and c can start B"""
    dfa, R = reach_pairs(ra, reps)
    fb = set(c for c in reps if not D.Dfa(rb, reps).dead(D.deriv(rb, c)))
    for qq in R:
        if D.nullable(qq):
            for c in reps:
                if c in fb and not dfa.dead(D.deriv(qq, c)):
                    return (c,)
    if D.nullable(rb):
        pass
    return None


def check_pair(item):
    kind, a, b = item
    if kind == "seq":
        stmts = (("match", a), ("match", b))
    elif kind == "opt":
        stmts = (("optional", (("match", a),)), ("match", b))
    elif kind == "optafter":
        stmts = (("match", a), ("optional", (("match", b),)), ("match", L("c")))
    elif kind == "loop":
        stmts = (("loop", None, (("match", a), ("optional", (("match", L("x")), ("break", None))))), ("match", b))
    elif kind == "if":
        a, b, b2 = a[0], a[1], b
        stmts = (("case", False, ((None, (L("p"),), (("set", "n", ("num", 1)),)), (None, (L("q"),), ()))), ("match", a),
                 ("if", ((("bin", "==", ("var", "n"), ("num", 1)), (("match", b),)),), (("match", b2),)))
    elif kind == "looplast":
        # the body ends in A: whatever can continue A must not be able to start the next iteration
        stmts = (("loop", None, (("match", a),)),)
    elif kind == "loopopt":
        stmts = (("loop", None, (("match", a), ("optional", (("match", b),)))),)
    elif kind == "loopif":
        # a loop left by a conditional break: what follows the loop follows A directly when the condition holds
        stmts = (("case", False, ((None, (L("p"),), (("set", "n", ("num", 1)),)), (None, (L("q"),), ()))),
                 ("loop", None, (("match", a), ("if", ((("bin", "==", ("var", "n"), ("num", 1)), (("break", None),)),), (("match", L("c")),)))), ("match", b))
    src = U.source(stmts)
    res = dict(src=src, status=None, truth=None, witness=None, kind=kind, ref_witness=None)
    acc = loader.compile_source(src, [], codegen=False)
    res["status"] = acc.kind
    reps = U.reps_of(stmts)
    ra, rb = U.m_core(a), U.m_core(b)
    if kind == "if":
        w = ambiguous_seq(ra, rb, reps) or ambiguous_seq(ra, U.m_core(b2), reps)
    elif kind == "looplast":
        w = ambiguous_seq(ra, ra, reps)
        if w is None and D.nullable(ra):
            w = ("loop body can match the empty string",)
    elif kind == "loopopt":
        fa = set(c for c in reps if not D.Dfa(ra, reps).dead(D.deriv(ra, c)))
        fb = set(c for c in reps if not D.Dfa(rb, reps).dead(D.deriv(rb, c)))
        w = ambiguous_seq(ra, rb, reps) or ambiguous_seq(ra, ra, reps) or ambiguous_seq(rb, ra, reps) or ((min(fa & fb),) if fa & fb else None)
        if w is None and (D.nullable(ra) or D.nullable(rb)):
            w = ("a block can match the empty string",)
    elif kind == "loopif":
        w = ambiguous_seq(ra, rb, reps) or ambiguous_seq(ra, U.m_core(L("c")), reps)
    elif kind == "seq":
        w = ambiguous_seq(ra, rb, reps)
        # an empty-matching A or B makes boundaries undecidable only if it overlaps; covered by the same test
    elif kind == "opt":
        fa = set(c for c in reps if not D.Dfa(ra, reps).dead(D.deriv(ra, c)))
        fb = set(c for c in reps if not D.Dfa(rb, reps).dead(D.deriv(rb, c)))
        w = (min(fa & fb),) if fa & fb else ambiguous_seq(ra, rb, reps)
        if w is None and D.nullable(ra):
            w = ("optional body can match the empty string",)
    elif kind == "optafter":
        rc = U.m_core(L("c"))
        fbset = set(c for c in reps if not D.Dfa(rb, reps).dead(D.deriv(rb, c)))
        w = ambiguous_seq(ra, rb, reps) or ambiguous_seq(ra, rc, reps) or ambiguous_seq(rb, rc, reps)
        if w is None and ord("c") in fbset:
            w = (ord("c"),)
    else:
        w = None
        res["truth"] = "n/a"
    if res["truth"] is None:
        res["truth"] = "ambiguous" if w else "unambiguous"
        res["witness"] = repr(w)
    if acc.kind == "accepted":
        try:
            am = AM(acc.dctx)
            ref = Ref(stmts, reps)
            o = refcheck.explore(am, ref, reps, max_states=1500)
            if o.ambiguous:
                res["ref_witness"] = (o.ambiguous[0][0].hex(), o.ambiguous[0][1])
            res["states"] = o.states
            res["trans"] = o.trans
        except Malformed:
            pass
    return res


def check_case(item):
    clauses, variant, greedy, prios = item
    stmts, decls, argv = c08.build(clauses, variant, greedy, prios)
    src = U.source(stmts, extra_decls=decls)
    res = dict(src=src, status=None, truth=None, witness=None)
    acc = loader.compile_source(src, argv, codegen=False)
    res["status"] = acc.kind
    reps = U.reps_of(stmts)
    pats = []
    for i, ps in enumerate(clauses):
        for p in ps:
            pats.append((i, U.m_core(p), ((prios[i] or 0) if (greedy and prios) else 0)))
    w = None
    if greedy:
        # a tie matters only among the clauses of the HIGHEST priority that match the same text: explore all patterns jointly
        dfs = [D.Dfa(r, reps) for _, r, _ in pats]
        start = tuple(r for _, r, _ in pats)
        seenq = {start}
        frq = [(start, b"")]
        while frq and w is None:
            Q, path = frq.pop()
            if path:
                nul = [k for k, qk in enumerate(Q) if qk is not None and D.nullable(qk)]
                if nul:
                    top = max(pats[k][2] for k in nul)
                    owners = sorted(set(pats[k][0] for k in nul if pats[k][2] == top))
                    if len(owners) > 1:
                        w = ("greedy clauses %s all match %r with the highest priority %d" % (owners, path, top), path)
                        break
            for c in reps:
                nq = tuple((None if (qk is None or dfs[k].dead(D.deriv(qk, c))) else D.deriv(qk, c)) for k, qk in enumerate(Q))
                if all(x is None for x in nq):
                    continue
                if nq not in seenq and len(seenq) < 4000:
                    seenq.add(nq)
                    frq.append((nq, path + bytes([c])))
        res["truth"] = "ambiguous" if w else "unambiguous"
        res["witness"] = repr(w)
        return res
    for (i, ri, pi), (j, rj, pj) in itertools.permutations(pats, 2):
        if i == j:
            continue
        # joint reachability of (qi, qj)
        seen = {(ri, rj)}
        fr = [((ri, rj), b"")]
        di, dj = D.Dfa(ri, reps), D.Dfa(rj, reps)
        while fr and w is None:
            (qi, qj), path = fr.pop()
            if path and D.nullable(qi):
                if not greedy and not dj.dead(qj):
                    w = ("clause %d matches %r while clause %d matches it too or can still continue" % (i, path, j), path)
                    break
                if greedy and D.nullable(qj) and pi == pj:
                    w = ("greedy clauses %d and %d both match %r with equal priority" % (i, j, path), path)
                    break
            for c in reps:
                ni, nj = D.deriv(qi, c), D.deriv(qj, c)
                if di.dead(ni) or dj.dead(nj):
                    continue
                if (ni, nj) not in seen and len(seen) < 3000:
                    seen.add((ni, nj))
                    fr.append(((ni, nj), path + bytes([c])))
        if w:
            break
    res["truth"] = "ambiguous" if w else "unambiguous"
    res["witness"] = repr(w)
    return res


def check_universe(item):
    stmts, label = item
    src = U.source(stmts)
    argv = U.needs_flags(stmts)
    res = dict(src=src, status=None, ref_witness=None, states=0, trans=0)
    acc = loader.compile_source(src, argv, codegen=False)
    res["status"] = acc.kind
    if acc.kind != "accepted":
        return res
    try:
        am = AM(acc.dctx)
    except Malformed:
        return res
    reps = U.reps_of(stmts)
    ref = Ref(stmts, reps, with_end=am.eof)
    o = refcheck.explore(am, ref, reps, with_end=am.eof, max_states=1500)
    res["states"], res["trans"] = o.states, o.trans
    if o.ambiguous:
        res["ref_witness"] = (o.ambiguous[0][0].hex(), o.ambiguous[0][1])
    return res


def dispatch(item):
    k = item[0]
    if k == "pair":
        return check_pair(item[1])
    if k == "case":
        return check_case(item[1])
    return check_universe(item[1])


def run(tier, seed):
    ck = Check("C09", tier, seed, "model_checking",
               rule="statement pairs and case pattern sets decided by an exact language-theoretic test on derivative automata; accepted universe programs searched for ambiguity witnesses "
                    "over all reachable REF x machine states; distinct = programs for which the compiler verdict and the ground truth were both established")
    items = []
    for a, b in itertools.product(MENU, MENU):
        for kind in ("seq", "opt", "optafter", "loop", "loopif", "loopopt") + (("looplast",) if b is MENU[0] else ()):
            items.append(("pair", (kind, a, b)))
    sub = MENU[:3] + MENU[4:5] + MENU[8:11]
    for a in sub:
        for b1, b2 in itertools.product(sub, sub):
            if b1 != b2:
                items.append(("pair", ("if", (a, b1), b2)))
    case_items = c08.items_for(tier, seed)
    # greedy priority assignments with a tie at the top and a lower third clause
    idx = list(range(len(c08.PATS)))
    for k, combo in enumerate(itertools.combinations(idx, 3)):
        if tier == "quick" and k % 3 != seed % 3:
            continue
        cl = tuple((c08.PATS[i],) for i in combo)
        for pr in ((2, 2, 0), (2, 0, 2), (0, 2, 2), (1, 1, 1), (0, 1, 1)):
            items.append(("case", (cl, "plain", True, pr)))
            items.append(("case", (cl, "lexer", True, pr)))
            # ... and with every other clause carrying a consuming body (a tie between an action-only clause and one with a body)
            items.append(("case", (cl, "mixbody", True, pr)))
    for k, combo in enumerate(itertools.permutations(idx, 2)):
        cl = tuple((c08.PATS[i],) for i in combo)
        for pr in ((1, 1), (2, 2), (0, 0)):
            items.append(("case", (cl, "mixbody", True, pr)))
    # the same pattern (or label set) in two clauses, next to each other and apart
    for i in idx:
        for j in idx[:6]:
            if i == j:
                continue
            pi, pj = c08.PATS[i], c08.PATS[j]
            for cl in (((pi,), (pi,)), ((pi,), (pj,), (pi,)), ((pi, pj), (pj, pi)), ((pi, pj), (pi,))):
                for variant in ("plain", "else", "mixbody"):
                    items.append(("case", (cl, variant, False, None)))
                items.append(("case", (cl, "plain", True, tuple(1 for _ in cl))))
                items.append(("case", (cl, "lexer", True, None)))
    for it in case_items:
        if it[1] in ("plain", "else", "empty1") and not (it[2] and it[1] == "else"):
            items.append(("case", it[:4]))
    gen = [(i, p) for i, p in enumerate(U.enumerate_programs(2)) if i < 992 or i % (13 if tier == "quick" else 2) == seed % (13 if tier == "quick" else 2)]
    for i, p in gen:
        items.append(("uni", (p, "U#%d" % i)))
    nstep = 19 if tier == "quick" else 2
    for i, p in enumerate(U.enumerate_nested()):       # one block nested in another (see C01)
        if i % nstep == seed % nstep and not U.doc_error_optional(p):
            items.append(("uni", (p, "N#%d" % i)))
    table = {}
    stats = dict(items=len(items), accepted_unambiguous=0, rejected_ambiguous=0, rejected_unambiguous_conservative=0, accepted=0)
    for idx, r in pmap(dispatch, items, timeout=600, chunksize=8, stop=ck.enough):
        if "harness_error" in r or "harness_timeout" in r:
            harness_fail("%s on item %d" % (r, idx))
        kind = items[idx][0]
        st = r["status"]
        ck.add(programs=1, evaluations=1, states=r.get("states", 0) or 1, transitions=r.get("trans", 0) or 1)
        if st in ("internal", "timeout"):
            continue   # C18's subject
        if kind in ("pair", "case") and r["truth"] in ("ambiguous", "unambiguous"):
            key = (kind, st == "accepted", r["truth"])
            table[key] = table.get(key, 0) + 1
            ck.note(sha(r["src"])[:12])
            if st == "accepted" and r["truth"] == "ambiguous":
                ck.violation("C09:accepted-ambiguous:%s:%s" % (kind, sha(r["src"])[:10]), "accepted although ambiguous (%s): %s" % (r["witness"], r["src"].replace("\n", " ")),
                             dict(src=r["src"], kind=kind, item=repr(items[idx][1])))
            elif st == "accepted":
                stats["accepted_unambiguous"] += 1
            elif r["truth"] == "ambiguous":
                stats["rejected_ambiguous"] += 1
            else:
                stats["rejected_unambiguous_conservative"] += 1
        if st == "accepted":
            stats["accepted"] += 1
            if r.get("ref_witness"):
                ck.violation("C09:witness:%s" % sha(r["src"])[:10], "accepted program reaches a decision point with two continuations: %s on input %s | %s" % (r["ref_witness"][1], r["ref_witness"][0], r["src"].replace("\n", " ")),
                             dict(src=r["src"], kind=kind, item=repr(items[idx][1]), witness=r["ref_witness"]))
        if idx % 1501 == 0:
            ck.sample(dict(kind=kind, source=r["src"], verdict=st, truth=r.get("truth"), witness=r.get("witness")))
    ck.extra.update(stats)
    ck.extra["verdict_vs_truth"] = {"%s accepted=%s %s" % k: v for k, v in sorted(table.items())}
    ck.cov["traces_validated_against_impl"] = stats["accepted"]
    ck.exhaustive = True
    ck.assumptions += ["bytes that a `wait` merely skips, or that only an `else` clause takes, do not count as 'starting what follows' (the compiler gives the continuing statement priority there by design)",
                       "traces_validated_against_impl counts accepted programs whose real compiled machine was explored jointly with REF",
                       "unambiguous-but-rejected programs are counted (the compiler may be conservative), not reported"]
    return ck.finish()


def replay(path):
    d = json.load(open(path))
    it = eval(d["item"])
    r = dispatch((d["kind"], it))
    print(r)
    bad = r["status"] == "accepted" and (r.get("truth") == "ambiguous" or r.get("ref_witness"))
    print("REPRODUCED" if bad else "not reproduced")
    return 1 if bad else 0
