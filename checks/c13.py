"""C13 - macros behave exactly like their textual expansion.

Programs with macro declarations and calls (one macro per argument kind, several kinds at once, nested calls passing
arguments through, argument names shadowing an outer macro's, arguments used several times, break targets across a
macro boundary, macro-typed arguments) are generated from our own AST and emitted twice: with macros, and inlined by
our own substitution.  Verdicts must be equal, and for accepted pairs the two compiled machines are explored jointly
(bisimulation WITHOUT slack: identical scheduling is expected).  Every (parameter kind x argument kind) mismatch and
every arity error must be a diagnosed error.
"""
import itertools
import json
from nv.framework import Check, pmap, sha, harness_fail
from nv import loader, universe as U, bisim
from nv.am import AM, Malformed

L = U.lit
q = U.q
RX = U.RX_ATOMS

KINDWORD = {"out": "out", "match": "match", "expr": "expr", "hook": "hook", "loop": "loop", "finishcode": "finishcode", "yieldcode": "yieldcode", "macro": "macro"}


# ----------------------------------------------------------------------------------------------------- substitution (our own inliner)

def m_subst(m, env):
    if m[0] == "mparam":
        k, v = env[m[1]]
        assert k == "match"
        return v
    if m[0] == "cat":
        return ("cat", tuple(m_subst(x, env) for x in m[1]))
    return m


def name_subst(n, env, kind):
    if n in env and env[n][0] == kind:
        return env[n][1]
    return n


def e_subst(e, env):
    t = e[0]
    if t == "ident":
        if e[1] in env and env[e[1]][0] == "expr":
            return env[e[1]][1]
        return e
    if t == "var":
        if e[1] in env:
            k, v = env[e[1]]
            if k == "expr":
                return v
            if k == "out":
                return ("var", v)
        return e
    if t == "len":
        return ("len", name_subst(e[1], env, "out"))
    if t == "idx":
        return ("idx", name_subst(e[1], env, "out"), e_subst(e[2], env))
    if t == "bin":
        return ("bin", e[1], e_subst(e[2], env), e_subst(e[3], env))
    if t in ("not", "neg"):
        return (t, e_subst(e[1], env))
    return e


def subst(stmts, env, macros, depth=0):
    out = []
    for st in stmts:
        k = st[0]
        if k == "match":
            out.append(("match", m_subst(st[1], env)))
        elif k == "wait":
            out.append(("wait", m_subst(st[1], env)))
        elif k == "append":
            out.append(("append", name_subst(st[1], env, "out"), m_subst(st[2], env)))
        elif k == "hook":
            out.append(("hook", name_subst(st[1], env, "hook")))
        elif k in ("set", "appendc"):
            out.append((k, name_subst(st[1], env, "out"), e_subst(st[2], env)))
        elif k == "setstr":
            out.append((k, name_subst(st[1], env, "out"), st[2]))
        elif k == "delete":
            out.append((k, name_subst(st[1], env, "out")))
        elif k == "finish":
            out.append((k, name_subst(st[1], env, "finishcode") if st[1] else None))
        elif k == "yield":
            out.append((k, name_subst(st[1], env, "yieldcode")))
        elif k == "break":
            out.append((k, name_subst(st[1], env, "loop") if st[1] else None))
        elif k == "loop":
            out.append(("loop", st[1], tuple(subst(st[2], env, macros, depth))))
        elif k == "optional":
            out.append(("optional", tuple(subst(st[1], env, macros, depth))))
        elif k == "try":
            out.append(("try", tuple(subst(st[1], env, macros, depth)), st[2], tuple(subst(st[3], env, macros, depth))))
        elif k == "foreach":
            out.append(("foreach", tuple(subst(st[1], env, macros, depth)), tuple(subst(st[2], env, macros, depth))))
        elif k == "if":
            out.append(("if", tuple((e_subst(c, env), tuple(subst(b, env, macros, depth))) for c, b in st[1]), None if st[2] is None else tuple(subst(st[2], env, macros, depth))))
        elif k == "case":
            out.append(("case", st[1], tuple((pr, tuple(p if p == "else" else m_subst(p, env) for p in pats), tuple(subst(b, env, macros, depth))) for pr, pats, b in st[2])))
        elif k == "call":
            name = name_subst(st[1], env, "macro")
            params, body = macros[name]
            new = {}
            for (pk, pn), a in zip(params, st[2]):
                if pk == "match":
                    new[pn] = ("match", m_subst(a, env))
                elif pk == "expr":
                    new[pn] = ("expr", e_subst(a, env))
                else:
                    new[pn] = (pk, name_subst(a, env, pk))
            assert depth < 6
            out.extend(subst(body, new, macros, depth + 1))
        else:
            raise ValueError(st)
    return out


# ----------------------------------------------------------------------------------------------------- printing

def macro_text(name, params, body):
    ps = ", ".join("%s %s" % (KINDWORD[k], n) for k, n in params)
    return "macro %s(%s) {\n%s\n}" % (name, ps, U.b_text(body, "  "))


def sources(macros, order, main):
    """-> (source with macros, source inlined)"""
    inl = tuple(subst(main, {}, macros))
    outs, hooks, fin, yld = U.used(inl)
    outs, hooks, fin, yld = set(outs), set(hooks), set(fin), set(yld)
    # names that only occur as arguments (e.g. of a macro that does not use its parameter) must be declared as well - in both versions
    def scan(stmts):
        for st in stmts:
            if st[0] == "call":
                for a in st[2]:
                    if isinstance(a, str):
                        if a in U.ENV:
                            outs.add(a)
                        elif a in U.HOOKS:
                            hooks.add(a)
                        elif a in ("F", "G"):
                            fin.add(a)
                        elif a in ("Y", "Z"):
                            yld.add(a)
            for x in st[1:]:
                if isinstance(x, tuple) and x and isinstance(x[0], tuple):
                    scan([y for y in x if isinstance(y, tuple) and y and isinstance(y[0], str)])
    scan(main)
    for nm in macros:
        scan(macros[nm][1])
    decl = [U.ENV[o] for o in U.ORDER if o in outs]
    decl += ["hook %s;" % h for h in U.HOOKS if h in hooks]
    if fin:
        decl.append("finishcode %s;" % ", ".join(sorted(fin)))
    if yld:
        decl.append("yieldcode %s;" % ", ".join(sorted(yld)))
    mtext = [macro_text(n, *macros[n]) for n in order]
    a = "\n".join(decl + mtext + ["parser {", U.b_text(main, "  "), "}"]) + "\n"
    b = "\n".join(decl + ["parser {", U.b_text(inl, "  "), "}"]) + "\n"
    argv = U.needs_flags(inl)
    return a, b, argv, inl


# ----------------------------------------------------------------------------------------------------- shapes

n1 = ("set", "n", ("bin", "+", ("var", "n"), ("num", 1)))
MP = lambda p: ("mparam", p)

MATCH_ARGS = [L("ab"), ("re", q("b", "+")), ("cat", (L("a"), ("re", RX["c"]))), ("liti", b"b"), ("bin", b"ab")]
EXPR_ARGS = [("num", 1), ("bin", "*", ("var", "n"), ("num", 2)), ("char", 65), ("bin", "+", ("len", "s"), ("num", 2)), ("bin", "==", ("var", "n"), ("num", 0))]


def shapes(tier):
    out = []

    def add(macros, order, main):
        out.append((dict(macros), list(order), tuple(main)))

    pre_post = [((), ()), ((("match", L("c")),), ()), ((), (("match", L("d")),)), ((("hook", "g"),), (("hook", "g"), ("match", L("d"))))]
    # 1. out
    mo = {"mo": ((("out", "t"),), (("append", "t", ("re", q("a", "+"))), ("match", L("x")), ("setstr", "t", b"k"), ("set", "n", ("len", "t")), ("hook", "h")))}
    for v in ("s", "u"):
        for pre, post in pre_post:
            add(mo, ["mo"], pre + (("call", "mo", (v,)),) + post)
    # 2. match (used twice, inside a concatenation)
    mm = {"mm": ((("match", "m"),), (("match", MP("m")), ("hook", "h"), ("match", ("cat", (L("y"), MP("m"))))))}
    for a in MATCH_ARGS:
        for pre, post in pre_post:
            add(mm, ["mm"], pre + (("call", "mm", (a,)),) + post)
    mm2 = {"mw": ((("match", "m"),), (("append", "s", MP("m")), ("wait", MP("m")), ("hook", "h")))}
    for a in MATCH_ARGS[:3]:
        add(mm2, ["mw"], (("call", "mw", (a,)), ("match", L("d"))))
    # 3. expr (used several times, in assignment, condition, char append)
    me = {"me": ((("expr", "e"),), (("set", "n", ("bin", "+", ("var", "e"), ("num", 1))), ("match", L("a")), ("if", ((("bin", "==", ("var", "e"), ("num", 2)), (("hook", "h"),)),), (("hook", "g"),)), ("appendc", "s", ("bin", "+", ("var", "e"), ("num", 64)))))}
    for a in EXPR_ARGS:
        for pre, post in pre_post[:3]:
            add(me, ["me"], pre + (("call", "me", (a,)),) + post)
    me2 = {"mp": ((("expr", "e"),), (("set", "m", ("bin", "*", ("var", "e"), ("num", 3))), ("match", L("a")), ("set", "m", ("bin", "-", ("var", "m"), ("var", "e"))), ("hook", "h")))}
    for a in EXPR_ARGS[:4]:
        add(me2, ["mp"], (("call", "mp", (a,)),))
    # 3b. expr arguments whose meaning depends on the assignment target (enum constant, bool)
    mt = {"setv": ((("expr", "which"),), (("match", L("a")), ("set", "e", ("ident", "which")), ("hook", "h"))),
          "setf": ((("expr", "w"),), (("match", L("a")), ("set", "f", ("ident", "w")), ("set", "n", ("ident", "w")), ("hook", "h")))}
    for a in (("enum", "B"), ("enum", "C")):
        add(mt, ["setv"], (("call", "setv", (a,)), ("match", L("d"))))
    for a in (("bool", 1), ("bool", 0)):
        add(mt, ["setf"], (("call", "setf", (a,)), ("match", L("d"))))
    # 4. hook
    mh = {"mh": ((("hook", "k"),), (("match", L("a")), ("hook", "k"), ("optional", (("match", L("b")), ("hook", "k")))))}
    for a in ("h", "g"):
        for pre, post in pre_post:
            add(mh, ["mh"], pre + (("call", "mh", (a,)),) + post)
    # 5. loop (break target passed in; and captured from the call site)
    ml = {"ml": ((("loop", "l"),), (("optional", (("match", L("x")), ("break", "l"))),))}
    add(ml, ["ml"], (("loop", "outer", (("match", L("a")), ("call", "ml", ("outer",)))), ("hook", "h"), ("match", L("z"))))
    add(ml, ["ml"], (("loop", "outer", (("loop", "inner", (("match", L("a")), ("call", "ml", ("outer",)), ("optional", (("match", L("y")), ("break", "inner"))))), ("hook", "g"))), ("hook", "h")))
    mc = {"mc": ((), (("optional", (("match", L("x")), ("break", "outer"))),))}
    add(mc, ["mc"], (("loop", "outer", (("match", L("a")), ("call", "mc", ()))), ("hook", "h"), ("match", L("z"))))
    # 5b. a labelled loop inside the macro body, left by `break <label>`; expanded more than once (each expansion owns its loop)
    mlab = {"mlab": ((("match", "m"),), (("loop", "lp", (("match", MP("m")), ("optional", (("match", L(",,")), ("break", "lp"))))), ("hook", "h"))),
            "mlab2": ((("match", "m"),), (("loop", "lo", (("loop", "li", (("match", MP("m")), ("optional", (("match", L(",,")), ("break", "li"))), ("optional", (("match", L(";;")), ("break", "lo"))))), ("hook", "g"))), ("hook", "h")))}
    for nm in ("mlab", "mlab2"):
        add(mlab, [nm], (("call", nm, (L("ab"),)), ("match", L("!")), ("call", nm, (L("cd"),)), ("match", L("?"))))
        add(mlab, [nm], (("call", nm, (L("ab"),)), ("call", nm, (("re", q("c", "+")),)), ("call", nm, (L("ef"),)), ("match", L("?"))))
        add(mlab, [nm], (("loop", "lp", (("call", nm, (L("ab"),)), ("optional", (("match", L("xx")), ("break", "lp"))), ("call", nm, (L("cd"),)))), ("match", L("?"))))
    # 6. codes
    mf = {"mf": ((("finishcode", "c"),), (("match", L("a")), ("finish", "c")))}
    for a in ("F", "G"):
        add(mf, ["mf"], (("optional", (("match", L("b")),)), ("call", "mf", (a,))))
        add(mf, ["mf"], (("case", False, ((None, (L("x"),), (("call", "mf", (a,)),)), (None, (L("y"),), (("call", "mf", ("F",)),)))),))
    my = {"my": ((("yieldcode", "c"),), (("match", L("a")), ("yield", "c")))}
    for a in ("Y", "Z"):
        add(my, ["my"], (("loop", None, (("call", "my", (a,)), ("match", L("b")))),))
    # 7. macro-typed argument
    mx = {"leaf": ((), (("hook", "h"), ("match", L("q")))), "leaf2": ((), (("match", L("r")), n1)), "mx": ((("macro", "inner"),), (("match", L("a")), ("call", "inner", ()), ("match", L("z"))))}
    for a in ("leaf", "leaf2"):
        for pre, post in pre_post[:3]:
            add(mx, ["leaf", "leaf2", "mx"], pre + (("call", "mx", (a,)),) + post)
    # 8. nested pass-through, with and without shadowing names
    for shadow in (False, True):
        sfx = "" if shadow else "2"
        inner = ("inner", (("out", "t" + sfx), ("match", "m" + sfx), ("expr", "e" + sfx), ("hook", "k" + sfx), ("finishcode", "c" + sfx)),
                 (("append", "t" + sfx, MP("m" + sfx)), ("set", "n", ("var", "e" + sfx)), ("hook", "k" + sfx), ("match", L("w")), ("finish", "c" + sfx)))
        outer = ("outer", (("out", "t"), ("match", "m"), ("expr", "e"), ("hook", "k"), ("finishcode", "c")),
                 (("match", L("c")), ("call", "inner", ("t", MP("m"), ("var", "e"), "k", "c"))))
        ms = {inner[0]: (inner[1], inner[2]), outer[0]: (outer[1], outer[2])}
        for ma in MATCH_ARGS[:3]:
            for ea in EXPR_ARGS[:3]:
                add(ms, ["inner", "outer"], (("call", "outer", ("s", ma, ea, "h", "F")),))
        # pass-through of everything except the match (kept literal in the outer body)
        outer_b = ("outerb", (("out", "t"), ("expr", "e"), ("hook", "k"), ("finishcode", "c")),
                   (("match", L("c")), ("call", "inner", ("t", L("ab"), ("bin", "+", ("var", "e"), ("num", 1)), "k", "c"))))
        ms2 = {inner[0]: (inner[1], inner[2]), outer_b[0]: (outer_b[1], outer_b[2])}
        for ea in EXPR_ARGS[:4]:
            add(ms2, ["inner", "outerb"], (("call", "outerb", ("s", ea, "g", "G")),))
    # 9. zero-argument macro called in several places; two calls with different arguments
    z = {"ows": ((), (("optional", (("match", L(" ")),)),))}
    add(z, ["ows"], (("match", L("a")), ("call", "ows", ()), ("match", L("b")), ("call", "ows", ()), ("match", L("c")), ("hook", "h")))
    add(mm, ["mm"], (("call", "mm", (L("ab"),)), ("call", "mm", (("re", q("b", "+")),)), ("match", L("d"))))
    add(me, ["me"], (("call", "me", (("num", 1),)), ("match", L("b")), ("call", "me", (("bin", "*", ("var", "n"), ("num", 2)),))))
    # 10. several kinds at once in control structures
    big = {"rd": ((("out", "t"), ("match", "d"), ("hook", "k")), (("foreach", (("match", ("re", q("\\d", "+"))),), (("set", "k", ("bin", "+", ("bin", "*", ("var", "k"), ("num", 10)), ("bin", "-", ("last",), ("char", 48)))),)),
                                                                  ("match", MP("d")), ("try", (("append", "t", ("re", q("a", "+"))),), ("outofspace",), (("hook", "k"), ("delete", "t")))))}
    for d in (L(";"), ("re", RX["[ab]"]), L("::")):
        add(big, ["rd"], (("call", "rd", ("s", d, "h")), ("match", L("!")), ("hook", "g")))
    # 11. macros with empty bodies whose parameters are named like globals: the bindings exist only inside the (empty) body
    em = {"note": ((("out", "s"),), ()), "note2": ((("expr", "n"), ("hook", "h")), ()), "note3": ((("match", "m"), ("finishcode", "F")), ())}
    add(em, ["note", "note2"], (("set", "n", ("num", 1)), ("match", L("x")), ("call", "note", ("u",)), ("append", "s", L("a")), ("hook", "h"), ("match", L("b")),
                                ("call", "note2", (("num", 5), "g")), ("set", "m", ("var", "n")), ("hook", "h")))
    add(em, ["note", "note2"], (("append", "s", L("a")), ("call", "note", ("u",)), ("match", L("b")), ("set", "m", ("var", "n")), ("call", "note2", (("num", 5), "g")), ("hook", "h"), ("match", L("c"))))
    add(em, ["note3"], (("match", L("a")), ("call", "note3", (L("zz"), "G")), ("optional", (("match", L("b")), ("finish", "F"))), ("match", L("c"))))
    add(em, ["note"], (("loop", None, (("append", "s", ("re", RX["[ab]"])), ("call", "note", ("u",)), ("optional", (("match", L(";")), ("break", None))))), ("call", "note", ("u",)), ("setstr", "s", b"k"), ("hook", "h"), ("match", L("c"))))
    return out


def error_cases():
    """(source, why) that must be diagnosed"""
    base_decl = 'out str[3] s; out int{unsigned, size 1} n = 0; hook h; finishcode F; yieldcode Y;\n'
    bodies = {
        "out": ("t", 't += "a";'), "match": ("m", 'm;'), "expr": ("e", 'n = [e + 1]; "a";'), "hook": ("k", '"a"; k();'),
        "loop": ("l", 'optional { "x"; break l; }'), "finishcode": ("c", '"a"; finish c;'), "yieldcode": ("c", '"a"; yield c;'), "macro": ("i", '"a"; i();'),
    }
    args = {"out": "s", "match": '"ab"', "expr": "[n + 1]", "hook": "h", "loop": "outer", "finishcode": "F", "yieldcode": "Y", "macro": "leaf", "regex": "/a+/", "number": "5", "undefined": "nosuch"}
    out = []
    for pk, (pn, body) in bodies.items():
        for ak, atext in args.items():
            if ak == pk or (pk == "match" and ak == "regex") or (pk == "expr" and ak in ("number", "out")):
                continue
            if pk == "expr" and ak in ("hook", "loop", "finishcode", "yieldcode", "macro", "undefined"):
                pass
            src = base_decl + "macro leaf() { \"q\"; }\nmacro mm(%s %s) { %s }\nparser { loop outer { \"z\"; mm(%s); } }\n" % (KINDWORD[pk], pn, body, atext)
            out.append((src, "%s parameter given a %s argument" % (pk, ak), ["-fyield-support"]))
        src0 = base_decl + "macro leaf() { \"q\"; }\nmacro mm(%s %s) { %s }\nparser { loop outer { \"z\"; mm(); } }\n" % (KINDWORD[pk], pn, body)
        src2 = base_decl + "macro leaf() { \"q\"; }\nmacro mm(%s %s) { %s }\nparser { loop outer { \"z\"; mm(%s, %s); } }\n" % (KINDWORD[pk], pn, body, args[pk], args[pk])
        out.append((src0, "%s parameter: no argument" % pk, ["-fyield-support"]))
        out.append((src2, "%s parameter: two arguments" % pk, ["-fyield-support"]))
    # bodies in which a value of the wrong kind would happen to parse, or which do not use the parameter at all: the kind check is the only defence
    alt = {"expr": ['wait e;', 's += e;', '"a";'], "match": ['n = m; "a";', '"a"; n = [m + 1];', '"a";'], "out": ['"a";'], "hook": ['"a";'], "loop": ['"a";'],
           "finishcode": ['"a";'], "yieldcode": ['"a";'], "macro": ['"a";']}
    args2 = dict(args, bool="true", char="'c'", binary='b"6162"', casei='"ab"i', string='"ab"')
    legal = {("match", "regex"), ("match", "string"), ("match", "binary"), ("match", "casei"), ("match", "match"), ("expr", "number"), ("expr", "out"), ("expr", "bool"), ("expr", "char"),
             ("expr", "string"), ("expr", "expr"), ("expr", "match")}
    for pk, blist in alt.items():
        pn = bodies[pk][0]
        for body in blist:
            for ak, atext in args2.items():
                if ak == pk or (pk, ak) in legal:
                    continue
                src = base_decl + "macro leaf() { \"q\"; }\nmacro mm(%s %s) { %s }\nparser { loop outer { \"z\"; mm(%s); } }\n" % (KINDWORD[pk], pn, body, atext)
                out.append((src, "%s parameter (body %r) given a %s argument" % (pk, body, ak), ["-fyield-support"]))
    out.append((base_decl + 'macro a() { b(); }\nmacro b() { a(); }\nparser { "x"; a(); }\n', "recursive macros", []))
    out.append((base_decl + 'macro a() { "q"; }\nparser { "x"; nosuch(); }\n', "call of an undefined macro/hook", []))
    out.append((base_decl + 'macro a(out t, out t) { t += "a"; }\nparser { a(s, s); }\n', "duplicate parameter name", []))
    return out


def check_pair(item):
    macros, order, main = item
    try:
        a_src, b_src, argv, inl = sources(macros, order, main)
    except Exception as e:  # generator bug
        return dict(harness_error="source generation: %r" % (e,))
    res = dict(a=a_src, b=b_src, argv=argv, status="ok", states=0, trans=0, problem=None, shapes=[])
    A = loader.compile_source(a_src, argv, codegen=False)
    B = loader.compile_source(b_src, argv, codegen=False)
    res["va"], res["vb"] = A.kind, B.kind
    if A.kind in ("internal", "timeout") or B.kind in ("internal", "timeout"):
        res["problem"] = "compiler %s / %s (%s | %s)" % (A.kind, B.kind, A.detail, B.detail)
        return res
    if (A.kind == "accepted") != (B.kind == "accepted"):
        res["problem"] = "macro version is %s (%s) but its textual expansion is %s (%s)" % (A.kind, A.detail, B.kind, B.detail)
        return res
    if A.kind != "accepted":
        res["status"] = "both-rejected"
        return res
    try:
        am_a, am_b = AM(A.dctx), AM(B.dctx)
    except Malformed:
        res["status"] = "malformed"
        return res
    reps = sorted(set(U.reps_of(inl)) | set(bisim.reps_for([am_a, am_b])))
    reps = [r for r in reps if r < 256]
    r = bisim.bisim(am_a, am_b, reps, slack=False, max_states=3000)
    res["states"], res["trans"] = r.states, r.trans
    res["shapes"] = sorted(map(repr, r.shapes))
    if r.status == "capped":
        res["status"] = "capped"
    elif r.status != "ok":
        p = r.path if not isinstance(r.path, tuple) else r.path[0]
        res["problem"] = "machines differ: %s (input %r)" % (r.why, p)
    return res


def check_error(item):
    src, why, argv = item
    o = loader.compile_source(src, argv, codegen=True)
    return dict(src=src, why=why, kind=o.kind, detail=o.detail, argv=argv)


def dispatch(item):
    return check_error(item[1]) if item[0] == "err" else check_pair(item[1])


def run(tier, seed):
    ck = Check("C13", tier, seed, "model_checking",
               rule="macro shapes x argument menus, each emitted with macros and inlined by our own substitution; verdict equality + exhaustive bisimulation without slack of the two machines; "
                    "error menu = every parameter kind x every wrong argument kind + arity errors; distinct = (pair, step shape) and error outcomes")
    items = [("pair", s) for s in shapes(tier)] + [("err", e) for e in error_cases()]
    stats = dict(pairs=0, both_accepted=0, both_rejected=0, errors_diagnosed=0, capped=0)
    for idx, r in pmap(dispatch, items, timeout=300, chunksize=4, stop=ck.enough):
        if "harness_error" in r or "harness_timeout" in r:
            harness_fail("%s on item %d" % (r, idx))
        if items[idx][0] == "err":
            ck.add(evaluations=1, states=1, transitions=1)
            ck.note(("err", r["why"], r["kind"]))
            if r["kind"] in ("diagnosed", "syntax"):
                stats["errors_diagnosed"] += 1
            else:
                ck.violation("C13:error:%s:%s" % (r["kind"], r["why"]), "%s: expected a diagnosed error, got %s %s | %s" % (r["why"], r["kind"], r["detail"], r["src"].replace("\n", " ")),
                             dict(kind="err", src=r["src"], argv=r["argv"], why=r["why"]))
            continue
        stats["pairs"] += 1
        if r["status"] == "both-rejected":
            stats["both_rejected"] += 1
        elif r["status"] == "capped":
            stats["capped"] += 1
            ck.cap("pair %d" % idx)
        if r["va"] == "accepted" and r["vb"] == "accepted":
            stats["both_accepted"] += 1
            ck.add(programs=1, states=r["states"], transitions=r["trans"], traces_validated_against_impl=1, evaluations=1)
            for s in r["shapes"]:
                ck.note((idx, s))
        if idx % 41 == 0:
            ck.sample(dict(with_macros=r["a"], inlined=r["b"], verdicts=[r["va"], r["vb"]], product_states=r["states"]))
        if r["problem"]:
            ck.violation("C13:pair:%s:%s" % (r["problem"].split("(")[0][:50], sha(r["a"])[:10]), "%s | %s" % (r["problem"], r["a"].replace("\n", " ")),
                         dict(kind="pair", a=r["a"], b=r["b"], argv=r["argv"]))
    ck.extra.update(stats)
    ck.exhaustive = stats["capped"] == 0
    ck.assumptions += ["names whose resolution the reference leaves undefined (macro argument vs global of the same name, expr argument vs output name) are not generated",
                       "traces_validated_against_impl counts accepted pairs whose two real compiled machines were explored jointly"]
    return ck.finish()


def replay(path):
    d = json.load(open(path))
    if d["kind"] == "err":
        r = check_error((d["src"], d["why"], d["argv"]))
        bad = r["kind"] not in ("diagnosed", "syntax")
        print(r["kind"], r["detail"])
    else:
        A = loader.compile_source(d["a"], d["argv"], codegen=False)
        B = loader.compile_source(d["b"], d["argv"], codegen=False)
        print(A.kind, A.detail, "|", B.kind, B.detail)
        bad = (A.kind == "accepted") != (B.kind == "accepted") or A.kind in ("internal",) or B.kind in ("internal",)
        if not bad and A.kind == "accepted":
            ra = AM(A.dctx)
            rb = AM(B.dctx)
            r = bisim.bisim(ra, rb, bisim.reps_for([ra, rb]), slack=False)
            print(r.status, r.why, r.path)
            bad = r.status == "diff"
    print("REPRODUCED" if bad else "not reproduced")
    return 1 if bad else 0
