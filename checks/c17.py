"""C17 - end-of-input handling follows the EOF contract.

The C01 engine (REF x abstract machine, nv/refcheck.py) run on programs compiled with EOF support: the whole
bounded universe with -feof-support (end-of-input is explored as a symbol from EVERY reachable product state)
plus an EOF-specific universe with `end` in match, case, wait, optional-lookahead and catch-handler positions.
REF's end step: DONE iff the program had already completed or an `end` pattern completes it there (running the
actions that follow; a finish among them gives its code), FAIL otherwise; `end` never matches a byte and no
data pattern (wildcards, inverted sets) matches end-of-input.
"""
import itertools
import json
from nv.framework import Check, pmap, sha, harness_fail
from nv import universe as U
from checks import c01

L = U.lit
RX = U.RX_ATOMS
ENDM = ("end",)


def eof_universe():
    m = [L("a"), ("re", U.q("a", "+")), ("re", RX["."]), ("re", RX["[^a]"]), ("re", U.q(".", "*")), L("ab"), ("re", ("seq", (RX["a"], U.q("[^ab]", "?"))))]
    acts = [("hook", "h"), ("set", "n", ("num", 1)), ("finish", "F"), ("set", "n", ("bin", "+", ("var", "n"), ("num", 1)))]
    progs = []
    for x in m:
        progs.append((("match", x), ("match", ENDM)))
        progs.append((("match", x),))
        progs.append((("match", ("cat", (x, ENDM))),))
        progs.append((("append", "s", x), ("match", ENDM), ("hook", "h")))
        for a in acts:
            progs.append((("match", x), ("match", ENDM), a))
            progs.append((("match", x), a, ("match", ENDM)))
            progs.append((("match", x), ("match", ENDM), a, ("hook", "g")))
        progs.append((("match", x), ("optional", (("match", L("b")),)), ("match", ENDM)))
        progs.append((("match", x), ("optional", (("match", L("b")),))))
        progs.append((("match", x), ("optional", (("match", ENDM), ("hook", "h"))), ("match", L("b"))))
        progs.append((("try", (("match", x), ("match", L("b"))), None, (("match", ENDM), ("finish", "F"))),))
        progs.append((("try", (("match", x), ("match", L("b"))), None, ()), ("hook", "h")))
        progs.append((("try", (("match", x), ("match", ENDM)), None, (("finish", "G"),)), ("finish", "F")))
        progs.append((("loop", None, (("match", x), ("case", False, ((None, (ENDM,), (("break", None),)), (None, (L("c"),), ())),))), ("hook", "h")))
        progs.append((("foreach", (("match", x), ("match", ENDM)), (("hook", "h"),)),))
        for y in (L("b"), ("re", U.q("b", "+"))):
            progs.append((("match", x), ("case", False, ((None, (ENDM,), (("set", "n", ("num", 1)), ("hook", "h"))), (None, (y,), (("set", "n", ("num", 2)),)))), ("hook", "g")))
            progs.append((("match", x), ("case", False, ((None, (ENDM,), (("finish", "F"),)), (None, (y,), ()), (None, ("else",), (("hook", "g"),))))))
            progs.append((("match", x), ("case", False, ((None, (ENDM, y), (("hook", "h"),)),)), ("match", L("c"))))
            progs.append((("match", x), ("case", True, ((None, (ENDM,), (("hook", "h"),)), (None, (y,), (("hook", "g"),)))),))
        progs.append((("match", x), ("wait", L("b")), ("hook", "h")))
        progs.append((("match", x), ("wait", ("cat", (L("b"), ENDM))), ("hook", "h")))
        progs.append((("match", x), ("wait", ENDM), ("hook", "h")))
        progs.append((("try", (("match", x), ("wait", L("b"))), None, (("finish", "G"),)), ("finish", "F")))
    for y in (("re", RX["[^a]"]), ("re", RX["."]), ("re", RX["\\D"]), ("re", U.q("[^ab]", "+"))):
        progs.append((("match", L("x")), ("case", False, ((None, (y,), (("set", "n", ("num", 1)),)), (None, (L("ac"),), (("set", "n", ("num", 2)),)))), ("hook", "h")))
        progs.append((("match", L("x")), ("case", True, ((None, (y,), (("set", "n", ("num", 1)),)), (None, (L("ac"),), (("set", "n", ("num", 2)),)))), ("hook", "h")))
        progs.append((("case", False, ((None, (y,), (("hook", "h"),)), (None, ("else",), (("hook", "g"),)))),))
        progs.append((("optional", (("match", y),)), ("match", L("a")), ("match", ENDM)))
        progs.append((("loop", None, (("case", False, ((None, (y,), ()), (None, (L("ab"),), (("break", None),)))),)), ("hook", "h")))
    # end-of-input taking an edge whose action redirects: a conditional break on a case's else path, an append that overflows after an `end` pattern
    n1 = ("set", "n", ("bin", "+", ("var", "n"), ("num", 1)))
    ge2 = ("bin", ">=", ("var", "n"), ("num", 2))
    for post in ((("match", ENDM), ("set", "m", ("num", 1)), ("hook", "h")), (("match", ENDM), ("finish", "F")), (("hook", "h"), ("match", ENDM))):
        progs.append((("loop", None, (("case", False, ((None, (L("a"),), (n1,)), (None, ("else",), (("if", ((ge2, (("break", None),)),), None), ("match", L("b")))))),)),) + post)
        progs.append((("loop", None, (("match", L("a")), n1, ("if", ((ge2, (("break", None),)),), None), ("optional", (("match", L("b")),)))),) + post)
    for handler in ((("hook", "g"),), (("hook", "g"), ("finish", "G")), (("delete", "s"), ("hook", "g"))):
        progs.append((("try", (("setstr", "s", b"ab"), ("match", L("a")), ("match", ENDM), ("appendc", "s", ("num", 33)), ("hook", "h")), ("outofspace",), handler), ("finish", "F")))
        progs.append((("try", (("append", "s", ("re", U.q("a", "+"))), ("match", ENDM), ("appendc", "s", ("num", 33)), ("hook", "h")), ("outofspace",), handler), ("hook", "h")))
        progs.append((("try", (("append", "s", ("re", U.q("a", "+"))), ("case", False, ((None, (ENDM,), (("appendc", "s", ("num", 33)), ("hook", "h"))), (None, (L("b"),), ())))), ("outofspace",), handler), ("hook", "h")))
    # end-of-input at an iteration boundary whose body ends in an inverted set / wildcard (its error edge names End explicitly)
    for tailm in (("re", ("seq", (RX["[^ab]"], RX["c"]))), ("re", ("seq", (RX["."], RX["c"]))), ("re", U.q("[^ab]", "+"))):
        progs.append((("loop", None, (("case", False, ((None, (ENDM,), (("break", None),)), (None, (L("a"),), (n1,)))), ("optional", (("match", tailm), ("set", "m", ("num", 1)))))), ("set", "m", ("num", 2)), ("hook", "h")))
        progs.append((("loop", None, (("match", L("a")), ("optional", (("match", tailm),)), ("optional", (("match", ENDM), ("break", None))))), ("hook", "h")))
    # a program that ends in a greedy case one of whose clauses is a prefix of another: end() right after the shorter one finds the program finished
    for sh, lg in ((L("a"), L("ab")), (("re", U.q("c", "+")), ("re", ("seq", (U.q("c", "+"), RX["b"])))), (L("a"), ("re", ("seq", (RX["a"], U.q("b", "+")))))):
        progs.append((("match", L("x")), ("case", True, ((None, (sh,), ()), (None, (lg,), ())))))
        progs.append((("match", L("x")), ("case", True, ((None, (sh,), (("set", "n", ("num", 1)),)), (None, (lg,), (("set", "n", ("num", 2)),))))))
        progs.append((("match", L("x")), ("case", True, ((2, (sh,), ()), (1, (lg,), ()))), ("optional", (("match", L("!")),))))
    progs.append((("match", ENDM),))
    progs.append((("match", ENDM), ("hook", "h")))
    progs.append((("hook", "h"), ("match", ENDM)))
    progs.append((("optional", (("match", L("a")),)), ("match", ENDM), ("finish", "F")))
    progs.append((("loop", None, (("case", False, ((None, (L("a"),), (("hook", "h"),)), (None, (ENDM,), (("break", None),)))),)), ("finish", "F")))
    return progs


def run(tier, seed):
    ck = Check("C17", tier, seed, "model_checking",
               rule="universe programs compiled with -feof-support plus an EOF-specific universe; end-of-input explored as a symbol from every reachable product state of REF x machine; "
                    "distinct = (program, (REF outcome kind, machine result code, step carried events)) pairs")
    items = []
    for i, p in enumerate(eof_universe()):
        items.append(dict(ast=p, label="EOF#%d" % i, want_c=(i % 4 == seed % 4), cap=3000, levels=[[]] if tier == "quick" else [[], ["-O0"], ["-O3"]], extra=["-feof-support"]))
        if tier == "thorough" or i % 2 == seed % 2:
            items.append(dict(ast=p, label="EOF#%d/strict" % i, want_c=(i % 8 == seed % 8), cap=3000, levels=[[]] if tier == "quick" else [[], ["-O3"]], extra=["-feof-support", "-fstrict-done-token-generation"]))
    gen = [(i, p) for i, p in enumerate(U.enumerate_programs(2)) if (i < 992 and i % 3 == seed % 3) or i % (31 if tier == "quick" else 5) == seed % (31 if tier == "quick" else 5)]
    for i, p in gen:
        items.append(dict(ast=p, label="U#%d" % i, want_c=(i % 37 == seed % 37), cap=2000, levels=[[]], extra=["-feof-support"]))
    nstep = 29 if tier == "quick" else 3
    for i, p in enumerate(U.enumerate_nested()):       # one block nested in another (see C01), with end-of-input from every reachable product state
        if i % nstep == seed % nstep:
            items.append(dict(ast=p, label="N#%d" % i, want_c=(i % (nstep * 9) == seed % (nstep * 9)), cap=2000, levels=[[]] if i % 2 else [["-O3"]], extra=["-feof-support"]))
    stats = dict(enumerated=len(items), accepted=0, rejected=0, capped=0, machine_spins_left_to_C04=0, ambiguity_witnesses_left_to_C09=0, end_steps=0, cbuild_failed=0)
    for idx, r in pmap(c01.check_program, items, timeout=600, chunksize=8, stop=ck.enough):
        if "harness_error" in r or "harness_timeout" in r:
            harness_fail("%s on %s\n%s" % (r, items[idx]["label"], U.source(items[idx]["ast"])))
        if r["status"] != "ok":
            stats["rejected"] += 1
            continue
        stats["accepted"] += 1
        stats["capped"] += r["capped"]
        stats["machine_spins_left_to_C04"] += r["spins"]
        stats["ambiguity_witnesses_left_to_C09"] += r["amb"]
        stats["cbuild_failed"] += r.get("cbuild_failed", 0)
        ck.add(programs=1, states=r["states"], transitions=r["trans"], traces_validated_against_impl=r["creplay"], evaluations=1)
        for s in r["shapes"]:
            ck.note((idx, s))
        if idx % 301 == 0:
            ck.sample(dict(source=r["src"], product_states=r["states"], shapes=r["shapes"][:6]))
        for p in r["problems"]:
            it = items[idx]
            if p["kind"] == "mismatch" and any(pred(it["ast"]) for _, pred in c01.KNOWN_SHAPES):
                continue   # C01's known findings; not an EOF matter
            sig = "C17:%s:%s:%s" % (p["kind"], p["what"].split("|")[0][:40].strip(), sha(r["src"])[:10])
            ck.violation(sig, "%s %s | input %s | %s" % (p["what"], p["argv"], p["path"], r["src"].replace("\n", " ")),
                         dict(src=r["src"], argv=p["argv"], path=p["path"], ast=repr(it["ast"]), kind=p["kind"]))
    ck.extra.update(stats)
    ck.exhaustive = stats["capped"] == 0
    ck.assumptions += ["as C01; in addition: an end-of-input that nothing claims at a point where the rest of the program could still consume is a mismatch (FAIL or handler), "
                       "end-of-input during a wait reports FAIL without entering a handler"]
    return ck.finish()


def replay(path):
    d = json.load(open(path))
    ast = eval(d["ast"])
    r = c01.check_program(dict(ast=ast, label="replay", want_c=True, cap=6000, levels=[[a for a in d["argv"] if a.startswith("-O")]], extra=["-feof-support"]))
    for p in r["problems"]:
        print(p["what"], p["path"])
    print("REPRODUCED" if r["problems"] else "not reproduced (%s)" % r["status"])
    return 1 if r["problems"] else 0
