"""C20 - compilation is a pure function of source and options.

Per program one child interpreter per PYTHONHASHSEED in {0,1,2,3}.  In each child the program is compiled first in the
fresh interpreter (baseline), then again, then after EVERY sequence of <= 2 prior compilations drawn from an
8-program polluter set (accepted / rejected in each phase / other flags), then under controlled identity-hash layouts:
__hash__ of nmfu's identity-hashed classes is replaced by an explorer-chosen permutation of creation order (every
permutation of the first 3 instances of each class, full reversal, and a stride permutation), which fixes the
iteration order of every set/dict of such objects.  Every recompilation must give the same verdict (and error class)
and, when accepted, a machine bisimilar WITHOUT slack to the baseline (explicit-state product search).  Across
children (hash seeds) the verdict and the behaviour table (result codes and events on every string <= L over the
program's byte classes) must be identical.
"""
import itertools
import json
import os
import subprocess
import sys
import hashlib

HERE = os.path.dirname(os.path.dirname(os.path.abspath(__file__)))
if HERE not in sys.path:
    sys.path.insert(0, HERE)

POLLUTERS = [
    ('parser { "abc"; }', []),
    ('out str[4] s; hook h; yieldcode Y; parser { loop { s += /[ab]+/; yield Y; h(); ";"; } }', ["-fyield-support"]),
    ('parser { case { "a" -> {} /a+/ -> {} } }', []),                       # compile error (ambiguous)
    ('parser { nosuch(); "a"; }', []),                                     # parse error (undefined reference)
    ('hook h; parser { "a"; h(); }', ["-fno-hook-global"]),                  # codegen error
    ('parser { "a" }', []),                                                # syntax error
    ('out int n = 0; parser { foreach { /\\d+/; } do { n = [n * 10 + ($last - 48)]; } optional { "x"; } end; }', ["-feof-support", "-O3"]),
    ('out enum{A,B} e; out bool f = false; parser { try { case { "ab", "cd" -> { e = B; } /[^a-c]x/ -> { f = true; } } } catch { wait "\\n"; } }', ["-O0"]),
]


def programs(tier, seed):
    from nv import progs, universe as U
    from checks import c08
    out = []
    for p in progs.corpus() + progs.features():
        out.append(dict(label=p["label"], src=p["src"], argv=p["argv"]))
    # set-heavy shapes: cases with several patterns per clause and several clauses, alternations, try/else retargeting
    L = U.lit
    RX = U.RX_ATOMS
    pats = c08.PATS
    k = 0
    for combo in itertools.combinations(range(len(pats)), 3):
        k += 1
        if k % (53 if tier == "quick" else 2) != seed % (53 if tier == "quick" else 2):
            continue
        clauses = ((pats[combo[0]], pats[combo[1]]), (pats[combo[2]],))
        for variant, greedy in (("else", False), ("plain", True), ("lexer", True)):
            stmts, decls, argv = c08.build(clauses, variant, greedy, (1, 2) if greedy else None)
            out.append(dict(label="CASE#%d%s" % (k, variant), src=U.source(stmts, extra_decls=decls), argv=argv))
    for i, p in enumerate(U.enumerate_programs(2)):
        if i % (997 if tier == "quick" else 89) == seed % (997 if tier == "quick" else 89):
            out.append(dict(label="U#%d" % i, src=U.source(p), argv=U.needs_flags(p)))
    for j, p in enumerate(U.handwritten()):
        out.append(dict(label="HW#%d" % j, src=U.source(tuple(p)), argv=U.needs_flags(tuple(p))))
    alt = ["/(ab|ac|ad)+e|(a|b)c?/", "/[a-c][^a]c|x(y|z)*/", "/(a|b|c)(a|b|c)(a|b)/"]
    for a in alt:
        out.append(dict(label="ALT", src="hook h; parser { %s; h(); \";\"; }\n" % a, argv=[]))
    return out


# ======================================================================================================= child

def child_main(job_path):
    job = json.load(open(job_path))
    from nv import loader, bisim
    from nv.am import AM, UB, Spin, Malformed
    N = loader.N

    class Ctl:
        def __init__(self):
            self.reset(None)

        def reset(self, perm):
            self.count = {}
            self.perm = perm
    ctl = Ctl()
    CLASSES = [N.DFState, N.DFTransition, N.DFA, N.Match, N.RegexNFState, N.Action, N.Node, N.DFCondition, N.RegexNFA]

    def mk(cls):
        def h(self):
            v = self.__dict__.get("_vh")
            if v is None:
                k = ctl.count.get(cls.__name__, 0)
                ctl.count[cls.__name__] = k + 1
                v = self.__dict__["_vh"] = (ctl.perm(cls.__name__, k) if ctl.perm else k) * 8 + 1
            return v
        return h
    for c in CLASSES:
        c.__hash__ = mk(c)
    # subclasses that define __eq__ lose the inherited __hash__ (set to None) and are unhashable anyway

    def compile_(src, argv):
        return loader.compile_source(src, argv, codegen=True)

    def verdict(o):
        return [o.kind, getattr(o, "cls", None) or getattr(o, "phase", None)]

    src, argv = job["src"], job["argv"]
    base = compile_(src, argv)
    out = dict(verdict=verdict(base), diffs=[], scenarios=0, states=0, trans=0, table=None, ctext=None)
    A = None
    reps = None
    if base.kind == "accepted":
        try:
            A = AM(base.dctx)
        except Malformed:
            A = None
    if A is not None:
        reps = [r for r in bisim.reps_for([A]) if r < 256]
        # behaviour table: every string <= L
        L = job["L"]
        reps_t = reps[:5]
        hsh = hashlib.sha256()
        for n in range(L + 1):
            for s in itertools.product(reps_t, repeat=n):
                cfg, code, ev = A.start()
                rec = [code, repr(bisim._conv(ev, 0))]
                if code == "OK":
                    for b in s:
                        try:
                            code, ev = bisim.step_sym(A, cfg, b, 0)
                        except (UB, Spin) as e:
                            rec.append(type(e).__name__)
                            break
                        rec.append((code, repr([(x[0], x[1]) for x in ev])))
                        if code not in ("OK",):
                            break
                    else:
                        rec.append(repr(sorted(cfg["data"].items())))
                hsh.update(repr(rec).encode())
        out["table"] = hsh.hexdigest()
        out["ctext"] = hashlib.sha256((base.source or "").encode()).hexdigest()

    def compare(tag, o):
        out["scenarios"] += 1
        if verdict(o) != out["verdict"]:
            out["diffs"].append(dict(scenario=tag, what="verdict %s instead of %s (%s)" % (verdict(o), out["verdict"], o.detail)))
            return
        if A is None or o.kind != "accepted":
            return
        B = AM(o.dctx)
        r = bisim.bisim(A, B, sorted(set(reps) | set(x for x in bisim.reps_for([B]) if x < 256)), slack=False, max_states=job["cap"])
        out["states"] += r.states
        out["trans"] += r.trans
        if r.status == "diff":
            p = r.path if not isinstance(r.path, tuple) else r.path[0]
            out["diffs"].append(dict(scenario=tag, what="machine differs from the first compilation: %s (input %r)" % (r.why, p)))

    compare(["again"], compile_(src, argv))
    pol = job["polluters"]
    seqs = [(i,) for i in range(len(pol))] + list(itertools.product(range(len(pol)), repeat=2))
    if job.get("few_histories"):
        seqs = seqs[:len(pol)] + seqs[len(pol)::9]
    for seq in seqs:
        for i in seq:
            compile_(pol[i][0], pol[i][1])
        compare(["after"] + [int(i) for i in seq], compile_(src, argv))
        if len(out["diffs"]) >= 3:
            break
    # layouts
    layouts = []
    names = [c.__name__ for c in CLASSES]
    for nm in (names if not job.get("few_histories") else ["DFState", "DFTransition", "RegexNFState", "Match"]):
        for perm in list(itertools.permutations(range(3)))[1:]:
            layouts.append(("first3", nm, perm))
    layouts.append(("reverse", None, None))
    layouts.append(("stride", None, None))
    if job.get("pairs"):
        for a, b in itertools.combinations(names[:5], 2):
            layouts.append(("pair", (a, b), (2, 0, 1)))
    for kind, nm, perm in layouts:
        if kind == "first3":
            f = (lambda nm, perm: lambda cls, k: (perm[k] if (cls == nm and k < 3) else k))(nm, perm)
        elif kind == "reverse":
            f = lambda cls, k: 100000 - k
        elif kind == "stride":
            f = lambda cls, k: (k * 7) % 16 + (k // 16) * 16
        else:
            f = (lambda nm, perm: lambda cls, k: (perm[k] if (cls in nm and k < 3) else k))(nm, perm)
        ctl.reset(f)
        try:
            o = compile_(src, argv)
        finally:
            ctl.reset(None)
        compare(["layout", kind, str(nm), str(perm)], o)
        if len(out["diffs"]) >= 3:
            break
    print("RESULT " + json.dumps(out))


# ======================================================================================================= parent

def run_child(item):
    import tempfile
    res = []
    for hs in item["seeds"]:
        with tempfile.NamedTemporaryFile("w", suffix=".json", delete=False) as f:
            json.dump(dict(src=item["src"], argv=item["argv"], polluters=POLLUTERS, L=item["L"], cap=item["cap"], few_histories=item["few"] or hs != 0, pairs=item["pairs"] and hs == 0), f)
            jp = f.name
        env = dict(os.environ)
        env["PYTHONHASHSEED"] = str(hs)
        env["NV_KEEP_HASHSEED"] = "1"
        try:
            p = subprocess.run([sys.executable, os.path.abspath(__file__), "--child", jp], capture_output=True, text=True, timeout=900, env=env)
        finally:
            os.unlink(jp)
        line = next((l for l in p.stdout.splitlines() if l.startswith("RESULT ")), None)
        if line is None:
            return dict(harness_error="child failed (seed %d): %s" % (hs, p.stderr[-1500:]))
        res.append(json.loads(line[7:]))
    return dict(children=res)


def run(tier, seed):
    from nv.framework import Check, pmap, sha, harness_fail
    ck = Check("C20", tier, seed, "model_checking",
               rule="per program: 4 interpreters (PYTHONHASHSEED 0..3) x (recompile, every polluter sequence of length <= 2 (seed 0; a fifth of the pairs for the other seeds), 56 controlled identity-hash layouts); "
                    "each recompilation compared with the first by verdict and by exhaustive bisimulation without slack; distinct = programs x scenarios compared")
    progs_ = programs(tier, seed)
    items = [dict(label=p["label"], src=p["src"], argv=p["argv"], seeds=[0, 1, 2, 3] if (tier == "thorough" or i % 16 == seed % 16) else ([0, 1 + (i % 3)] if i % 2 == 0 else [0]),
                  L=4, cap=800 if tier == "quick" else 4000, few=(tier == "quick" and i % 9 != seed % 9), pairs=(tier == "thorough")) for i, p in enumerate(progs_)]
    stats = dict(programs=len(items), accepted=0, children=0, scenarios=0, canonical_c_text_varies_with_hash_seed=0)
    for idx, r in pmap(run_child, items, timeout=3000, chunksize=1, stop=ck.enough):
        if "harness_error" in r or "harness_timeout" in r:
            harness_fail("%s on %s" % (r, items[idx]["label"]))
        it = items[idx]
        ch = r["children"]
        stats["children"] += len(ch)
        v0 = ch[0]["verdict"]
        if v0[0] == "accepted":
            stats["accepted"] += 1
        for i, c in enumerate(ch):
            stats["scenarios"] += c["scenarios"]
            ck.add(states=c["states"], transitions=c["trans"], evaluations=c["scenarios"], traces_validated_against_impl=c["scenarios"])
            ck.note((it["label"], i, c["scenarios"]))
            for d in c["diffs"]:
                ck.violation("C20:history:%s:%s" % (" ".join(map(str, d["scenario"][:2])), sha(it["src"])[:10]), "%s: PYTHONHASHSEED=%d scenario %s: %s" % (it["label"], it["seeds"][i], d["scenario"], d["what"]),
                             dict(src=it["src"], argv=it["argv"], hashseed=it["seeds"][i], scenario=d["scenario"]))
            if c["verdict"] != v0:
                ck.violation("C20:seed-verdict:%s" % sha(it["src"])[:10], "%s: verdict %s with PYTHONHASHSEED=%d but %s with %d" % (it["label"], c["verdict"], it["seeds"][i], v0, it["seeds"][0]),
                             dict(src=it["src"], argv=it["argv"], hashseed=it["seeds"][i], scenario=["fresh"]))
            elif c["table"] != ch[0]["table"]:
                ck.violation("C20:seed-behaviour:%s" % sha(it["src"])[:10], "%s: behaviour table (all strings <= 4) differs between PYTHONHASHSEED=%d and %d" % (it["label"], it["seeds"][i], it["seeds"][0]),
                             dict(src=it["src"], argv=it["argv"], hashseed=it["seeds"][i], scenario=["fresh"]))
            elif c["ctext"] != ch[0]["ctext"]:
                stats["canonical_c_text_varies_with_hash_seed"] += 1
        ck.add(programs=1)
        if idx % 23 == 0:
            ck.sample(dict(program=it["label"], hash_seeds=it["seeds"], scenarios_per_child=[c["scenarios"] for c in ch], verdict=v0))
    ck.extra.update(stats)
    ck.exhaustive = True
    ck.assumptions += ["identity-hash order is explored by bounded deviations from creation order (all permutations of the first three instances per class, reversal, a stride permutation), string-hash order by four hash seeds - finite menus, stated as such",
                       "histories inside one child accumulate (every <= 2 sequence is run after the previous ones); each child starts from a fresh interpreter",
                       "emitted C text may legitimately differ with layout (state numbering); only verdict and behaviour are compared"]
    return ck.finish()


def replay(path):
    d = json.load(open(path))
    r = run_child(dict(src=d["src"], argv=d["argv"], seeds=[0, d.get("hashseed", 0)], L=4, cap=4000, few=False, pairs=False))
    bad = False
    if "children" in r:
        ch = r["children"]
        bad = any(c["diffs"] for c in ch) or any(c["verdict"] != ch[0]["verdict"] or c["table"] != ch[0]["table"] for c in ch)
        for c in ch:
            print(c["verdict"], c["diffs"][:2])
    print("REPRODUCED" if bad else "not reproduced")
    return 1 if bad else 0


if __name__ == "__main__":
    if len(sys.argv) > 2 and sys.argv[1] == "--child":
        child_main(sys.argv[2])
