"""C20 - compilation is a pure function of source and options.

Per program one child interpreter per PYTHONHASHSEED in {0,1,2,3}.  In each child the program is compiled first in the
fresh interpreter (baseline), then again, then after EVERY sequence of <= 2 prior compilations drawn from an
8-program polluter set (accepted / rejected in each phase / other flags), then under controlled identity-hash layouts:
__hash__ of nmfu's identity-hashed classes is replaced by an explorer-chosen permutation of creation order (every
permutation of the first 3 instances of each class, full reversal, and a stride permutation), which fixes the
iteration order of every set/dict of such objects.  Every recompilation must give the same verdict (and error class)
and, when accepted, a machine bisimilar WITHOUT slack to the baseline (explicit-state product search).  Across
children (hash seeds) the verdict and the behaviour table (result codes and events on every string <= L over the
program's byte classes) must be identical.
"""
import itertools
import json
import os
import subprocess
import sys
import hashlib

HERE = os.path.dirname(os.path.dirname(os.path.abspath(__file__)))
if HERE not in sys.path:
    sys.path.insert(0, HERE)

POLLUTERS = [
    ('parser { "abc"; }', []),
    ('out str[4] s; hook h; yieldcode Y; parser { loop { s += /[ab]+/; yield Y; h(); ";"; } }', ["-fyield-support"]),
    ('parser { case { "a" -> {} /a+/ -> {} } }', []),                       # compile error (ambiguous)
    ('parser { nosuch(); "a"; }', []),                                     # parse error (undefined reference)
    ('hook h; parser { "a"; h(); }', ["-fno-hook-global"]),                  # codegen error
    ('parser { "a" }', []),                                                # syntax error
    ('out int n = 0; parser { foreach { /\\d+/; } do { n = [n * 10 + ($last - 48)]; } optional { "x"; } end; }', ["-feof-support", "-O3"]),
    ('out enum{A,B} e; out bool f = false; parser { try { case { "ab", "cd" -> { e = B; } /[^a-c]x/ -> { f = true; } } } catch { wait "\\n"; } }', ["-O0"]),
    # rejected from INSIDE a macro expansion (whatever the expansion had bound or pushed must not survive), with parameter names other programs use as globals
    ('out int total = 0; out str[4] other; hook hh; macro mm(out n, out s, out m, out k, hook h, hook g, expr e, match t) { n = 7; s += t; h(); nosuch(); } parser { "a"; mm(total, other, total, total, hh, hh, 5, "zz"); }', []),
    ('macro a() { b(); } macro b() { a(); } parser { "x"; a(); }', []),
    ('out int x = 0; macro outer(expr x, macro leaf) { leaf(); x = [x + 1]; } macro lf() { "q"; undefined_thing(); } parser { "a"; outer(3, lf); }', []),
]


# names that resolve in two namespaces at once: which one wins must not depend on any iteration order
SHADOW = [
    ('out int x = 0; out int y = 0; macro m(expr x) { y = [x + 1]; } parser { "a"; m(5); x = 3; "b"; m(9); }', []),
    ('out int x = 2; out int y = 0; macro m(expr x) { if [x == 2] { y = 1; } else { y = [x]; } } parser { "a"; m(7); "b"; }', []),
    ('hook g; out int y = 0; macro h() { y = 7; } macro m(hook h) { h(); } parser { "a"; m(g); "b"; }', []),
    ('hook h; out int y = 0; macro g() { y = 7; } macro m(macro h) { h(); } parser { "a"; m(g); "b"; }', []),
    ('out int x = 0; out int y = 0; macro m(out x) { x = 5; } parser { "a"; m(y); "b"; }', []),
    ('out int x = 1; out int y = 0; macro inner(expr x) { y = [x * 2]; } macro outer(expr x) { inner([x + 1]); } parser { "a"; outer(4); "b"; }', []),
    ('out str[4] x; out str[4] y; macro m(expr x) { y += x; } parser { x = "q"; "a"; m("zz"); "b"; }', []),
    ('finishcode F, G; macro m(finishcode F) { finish F; } parser { "a"; m(G); }', []),
    ('out int n = 0; macro m(loop l) { break l; } parser { loop l { loop k { "a"; n = [n + 1]; m(k); } "b"; break l; } "c"; }', []),
    ('out int x = 0; macro m(match x) { x; } parser { m("ab"); x = 1; "c"; }', []),
]

# sources the grammar can read in more than one way (a blank inside a regex is a literal and also ignorable white space, ...):
# which reading wins must not depend on any iteration order either
# an if/else whose branches start differently (an inverted set in one, the excluded byte spelled out in the other) joined after a statement that ends by
# lookahead: what the condition point "starts with" is computed from a *set of states* (identity-hashed), so the verdict must not depend on their order
IDHASH = [
    ('out int n = 0; parser { case { "p" -> { n = 1; } "r" -> {} } /xq?/; if n == 1 { /[^q]z/; } else { "qz"; } }', []),
    ('out int n = 0; parser { case { "p" -> { n = 1; } "r" -> {} } /xq?/; if n == 1 { "qz"; } else { /[^q]z/; } "!"; }', []),
    ('out int n = 0; parser { case { "p" -> { n = 1; } "r" -> { n = 2; } "s" -> {} } /x[qw]?/; if n == 1 { /[^qw]z/; } elif n == 2 { "qz"; } else { "wz"; } }', []),
    ('out int n = 0; parser { case { "p" -> { n = 1; } "r" -> {} } optional { "xq"; } if n == 1 { /[^x]z/; } else { "xz"; } }', []),
    ('out int n = 0; hook h; parser { case { "p" -> { n = 1; } "r" -> {} } loop { /x+/; if n == 1 { /[^x;]z/; } else { "yz"; } optional { ";;"; break; } } h(); }', []),
]
GRAMMAR_AMBIG = [
    ('parser { /GET [a-z]+ HTTP/; "!"; }', []),
    ('out str[8] s; parser { s += /a b  c/; ";"; }', []),
    ('parser { /a +b/; /[a b]+c/; }', []),
    ('parser { / a| b /; "x"; }', []),
    ('parser { case { /a b/ -> {} / c/ -> {} } "z"; }', []),
    ('out int n = 0; parser { "a"; n = [1 - -1 + - 2]; if n == 2 && n != 3 || n < 1 { "b"; } else { "c"; } }', []),
]

FLIP = ["-fstrict-done-token-generation", "-feof-support", "-fyield-support", "-fallocate-str-space-dynamic", "-fstrings-as-u8", "-finclude-user-ptr",
        "-fuse-packed-enums", "-fzero-len-input-support"]


def flipped(argv, which):
    """the same program under other options: the compilation most likely to leave something behind that matters to the next one"""
    out = [a for a in argv if a not in ("-O0", "-O1", "-O2", "-O3")]
    if which == "strict":
        return out + (["-fstrict-done-token-generation"] if "-fstrict-done-token-generation" not in argv else []) + [a for a in argv if a.startswith("-O")]
    out += [f for f in FLIP if f not in argv]
    out.append("-O3" if "-O0" in argv else "-O0")
    return out


_COVER = None


def cover_seeds(limit=10):
    """PYTHONHASHSEED values chosen so that, for every pair of members of every nmfu Enum hashed by name, both iteration orders of the
    two-element set occur (string hashes are the one layout the explorer cannot set directly, so it selects seeds by their effect)"""
    global _COVER
    if _COVER is not None:
        return _COVER
    import enum
    from nv import loader
    classes = {}
    for nm, c in vars(loader.N).items():
        if isinstance(c, type) and issubclass(c, enum.Enum) and c.__hash__ is enum.Enum.__hash__ and 2 <= len(c) <= 16:
            classes[nm] = [m._name_ for m in c]
    names = sorted(set(n for v in classes.values() for n in v))
    code = "import json,sys; print(json.dumps({n: hash(n) & 7 for n in json.loads(sys.argv[1])}))"
    slot = {}
    for hs in range(40):
        env = dict(os.environ, PYTHONHASHSEED=str(hs))
        r = subprocess.run([sys.executable, "-c", code, json.dumps(names)], capture_output=True, text=True, env=env)
        slot[hs] = json.loads(r.stdout)
    targets = set()
    covers = {hs: set() for hs in slot}
    for cn, ms in classes.items():
        for a, b in itertools.combinations(ms, 2):
            for hs, sl in slot.items():
                if sl[a] != sl[b]:          # equal slots: insertion order, not hash order
                    covers[hs].add((cn, a, b, sl[a] < sl[b]))
            targets.add((cn, a, b, True))
            targets.add((cn, a, b, False))
    chosen, left = [0], set(targets) - covers[0]
    while left and len(chosen) < limit:
        best = max(sorted(slot), key=lambda h: len(covers[h] & left))
        if not covers[best] & left:
            break
        chosen.append(best)
        left -= covers[best]
    _COVER = (chosen, len(targets), len(targets) - len(left))
    return _COVER


def programs(tier, seed):
    from nv import progs, universe as U
    from checks import c08
    out = []
    for p in progs.corpus() + progs.features():
        out.append(dict(label=p["label"], src=p["src"], argv=p["argv"]))
    # set-heavy shapes: cases with several patterns per clause and several clauses, alternations, try/else retargeting
    L = U.lit
    RX = U.RX_ATOMS
    pats = c08.PATS
    k = 0
    for combo in itertools.combinations(range(len(pats)), 3):
        k += 1
        if k % (53 if tier == "quick" else 2) != seed % (53 if tier == "quick" else 2):
            continue
        clauses = ((pats[combo[0]], pats[combo[1]]), (pats[combo[2]],))
        for variant, greedy in (("else", False), ("plain", True), ("lexer", True)):
            stmts, decls, argv = c08.build(clauses, variant, greedy, (1, 2) if greedy else None)
            out.append(dict(label="CASE#%d%s" % (k, variant), src=U.source(stmts, extra_decls=decls), argv=argv))
    for i, p in enumerate(U.enumerate_programs(2)):
        if i % (997 if tier == "quick" else 89) == seed % (997 if tier == "quick" else 89):
            out.append(dict(label="U#%d" % i, src=U.source(p), argv=U.needs_flags(p)))
    for j, p in enumerate(U.handwritten()):
        out.append(dict(label="HW#%d" % j, src=U.source(tuple(p)), argv=U.needs_flags(tuple(p))))
    for j, (src, argv) in enumerate(SHADOW):
        out.append(dict(label="SHADOW#%d" % j, src=src + "\n", argv=argv))
    for j, (src, argv) in enumerate(IDHASH):
        out.append(dict(label="SHADOW-IDHASH#%d" % j, src=src + "\n", argv=argv))
    for j, (src, argv) in enumerate(GRAMMAR_AMBIG):
        out.append(dict(label="SHADOW-GRAMMAR#%d" % j, src=src + "\n", argv=argv))
    alt = ["/(ab|ac|ad)+e|(a|b)c?/", "/[a-c][^a]c|x(y|z)*/", "/(a|b|c)(a|b|c)(a|b)/"]
    for a in alt:
        out.append(dict(label="ALT", src="hook h; parser { %s; h(); \";\"; }\n" % a, argv=[]))
    return out


# ======================================================================================================= child

def child_main(job_path):
    job = json.load(open(job_path))
    from nv import loader, bisim
    from nv.am import AM, UB, Spin, Malformed
    N = loader.N

    class Ctl:
        def __init__(self):
            self.reset(None)

        def reset(self, perm):
            self.count = {}
            self.perm = perm
    ctl = Ctl()
    CLASSES = [N.DFState, N.DFTransition, N.DFA, N.Match, N.RegexNFState, N.Action, N.Node, N.DFCondition, N.RegexNFA]

    def mk(cls):
        def h(self):
            v = self.__dict__.get("_vh")
            if v is None:
                k = ctl.count.get(cls.__name__, 0)
                ctl.count[cls.__name__] = k + 1
                v = self.__dict__["_vh"] = (ctl.perm(cls.__name__, k) if ctl.perm else k)
            return v
        return h
    for c in CLASSES:
        c.__hash__ = mk(c)
    # subclasses that define __eq__ lose the inherited __hash__ (set to None) and are unhashable anyway

    def compile_(src, argv, perm=None):
        ctl.reset(perm)          # creation counters restart: the same compilation gets the same virtual hashes every time
        try:
            return loader.compile_source(src, argv, codegen=True)
        finally:
            ctl.perm = None

    def cdigest(o, reps_c):
        """behaviour of the generated C itself (flags of o are still loaded): trace hash of every string <= Lc, one chunk and byte-wise"""
        from nv import cbuild
        eof = "-feof-support" in argv
        try:
            with cbuild.CProg(o, "gcc") as cp:
                script = cp.op_exhaust(job["Lc"], reps_c, do_end=eof, digest=True, no_offsets=True) + cp.op_exhaust(max(job["Lc"] - 1, 1), reps_c, do_end=eof, digest=True, bytewise=True, no_offsets=True)
                # ... and every string <= 2 over all 256 byte values: the emitted comparisons / range tests of every byte class member, not only of the representatives
                # (the op encodes the number of bytes in one byte: 0..254 in one run, 255 next to the representatives in another)
                script += cp.op_exhaust(2, list(range(255)), do_end=eof, digest=True, no_offsets=True) + cp.op_exhaust(2, [255] + [r for r in reps_c if r != 255], do_end=eof, digest=True, no_offsets=True)
                recs, status = cp.run(script, timeout=120)
                if status != "ok":
                    return "run:" + status
                return hashlib.sha256(repr([r[1]["digests"] for r in recs]).encode()).hexdigest()
        except cbuild.BuildError as e:
            return "cbuild_failed"

    import re

    def ctext(o):
        """the emitted C without comments (they quote Python object reprs, i.e. memory addresses)"""
        t = (o.header or "") + (o.source or "")
        t = re.sub(r"(?m)^\s*//[^\n]*$", "", t)         # whole-line comments only: never touches a string literal
        return hashlib.sha256(t.encode()).hexdigest()

    def verdict(o):
        return [o.kind, getattr(o, "cls", None) or getattr(o, "phase", None)]

    src, argv = job["src"], job["argv"]
    for psrc, pargv in job.get("pre", []):      # compilations that come BEFORE the first compilation of the program in this interpreter
        compile_(psrc, pargv)
    base = compile_(src, argv)
    out = dict(verdict=verdict(base), diffs=[], scenarios=0, states=0, trans=0, table=None, ctext=None, cdigest=None, c_runs=0, reps=None)
    A = None
    reps = None
    if base.kind == "accepted":
        try:
            A = AM(base.dctx)
        except Malformed:
            A = None
    if A is not None:
        reps = [r for r in bisim.reps_for([A]) if r < 256]
        # behaviour table: every string <= L
        L = job["L"]
        reps_t = reps[:5]
        hsh = hashlib.sha256()
        for n in range(L + 1):
            for s in itertools.product(reps_t, repeat=n):
                cfg, code, ev = A.start()
                rec = [code, repr(bisim._conv(ev, 0))]
                if code == "OK":
                    for b in s:
                        try:
                            code, ev = bisim.step_sym(A, cfg, b, 0)
                        except (UB, Spin) as e:
                            rec.append(type(e).__name__)
                            break
                        rec.append((code, repr([(x[0], x[1]) for x in ev])))
                        if code not in ("OK",):
                            break
                    else:
                        rec.append(repr(sorted(cfg["data"].items())))
                hsh.update(repr(rec).encode())
        out["table"] = hsh.hexdigest()
        out["ctext"] = ctext(base)
        out["reps"] = reps_t
        out["cdigest"] = cdigest(base, reps_t)
        out["c_runs"] += 1

    def compare(tag, o):
        out["scenarios"] += 1
        if verdict(o) != out["verdict"]:
            out["diffs"].append(dict(scenario=tag, what="verdict %s instead of %s (%s)" % (verdict(o), out["verdict"], o.detail)))
            return
        if A is None or o.kind != "accepted":
            return
        if ctext(o) == out["ctext"]:
            out["same_text"] = out.get("same_text", 0) + 1      # the same C program: nothing further to compare
            return
        try:
            B = AM(o.dctx)
            r = bisim.bisim(A, B, sorted(set(reps) | set(x for x in bisim.reps_for([B]) if x < 256)), slack=False, max_states=job["cap"])
        except (UB, Spin):
            raise
        except Exception as e:      # noqa: BLE001 - e.g. the recompiled machine refers to an output of ANOTHER program
            out["diffs"].append(dict(scenario=tag, what="the recompiled machine cannot be executed like the first one: %s: %s" % (type(e).__name__, str(e)[:120])))
            return
        out["states"] += r.states
        out["trans"] += r.trans
        if r.status == "diff":
            p = r.path if not isinstance(r.path, tuple) else r.path[0]
            out["diffs"].append(dict(scenario=tag, what="machine differs from the first compilation: %s (input %r)" % (r.why, p)))
            return
        # the emitted C: identical text needs no run; any other text is built and run on every string <= Lc
        if True:
            out["text_differs"] = out.get("text_differs", 0) + 1
            if tag[0] != "layout" or job.get("c_layouts"):
                d = cdigest(o, out["reps"])
                out["c_runs"] += 1
                if d != out["cdigest"] and "cbuild_failed" not in (d, out["cdigest"]):
                    out["diffs"].append(dict(scenario=tag, what="the generated C behaves differently from the first compilation's on some string <= %d (trace digests %s.. vs %s..)" % (job["Lc"], str(d)[:12], str(out["cdigest"])[:12])))

    if A is not None and len(A.states) > 150:
        job["few_histories"] = True       # large machines (seconds per compilation): single-polluter histories and the four hottest classes only
        out["large"] = True
    compare(["again"], compile_(src, argv))
    pol = job["polluters"]
    seqs = [(i,) for i in range(len(pol))] + list(itertools.product(range(len(pol)), repeat=2))
    if job.get("few_histories"):
        seqs = seqs[:len(pol)] + seqs[len(pol)::11]
    elif not job.get("pairs"):
        seqs = seqs[:len(pol)] + seqs[len(pol)::2]       # quick tier: every single polluter, every second ordered pair
    for seq in seqs:
        for i in seq:
            compile_(pol[i][0], pol[i][1])
        compare(["after"] + [int(i) for i in seq], compile_(src, argv))
        if len(out["diffs"]) >= 3:
            break
    # layouts
    layouts = []
    names = [c.__name__ for c in CLASSES]
    for nm in (names if not job.get("few_histories") else ["DFState", "DFTransition", "RegexNFState", "Match"]):
        for perm in list(itertools.permutations(range(3)))[1:]:
            layouts.append(("first3", nm, perm))
    layouts.append(("reverse", None, None))
    layouts.append(("stride", None, None))
    if job.get("pairs"):
        for a, b in itertools.combinations(names[:5], 2):
            layouts.append(("pair", (a, b), (2, 0, 1)))
    for kind, nm, perm in layouts:
        if kind == "first3":
            f = (lambda nm, perm: lambda cls, k: (perm[k] if (cls == nm and k < 3) else k))(nm, perm)
        elif kind == "reverse":
            f = lambda cls, k: 100000 - k
        elif kind == "stride":
            f = lambda cls, k: (k * 7) % 16 + (k // 16) * 16
        else:
            f = (lambda nm, perm: lambda cls, k: (perm[k] if (cls in nm and k < 3) else k))(nm, perm)
        o = compile_(src, argv, f)
        compare(["layout", kind, str(nm), str(perm)], o)
        if len(out["diffs"]) >= 3:
            break
    print("RESULT " + json.dumps(out))


# ======================================================================================================= parent

def run_child(item):
    import tempfile
    res = []
    own = [(item["src"], flipped(item["argv"], "all")), (item["src"], flipped(item["argv"], "strict"))]
    pres = {"": [], "all": [own[0]], "strict": [own[1]], "other": [POLLUTERS[1], POLLUTERS[6]]}
    for hs, pre in item["children"]:
        first = (hs, pre) == tuple(item["children"][0])
        with tempfile.NamedTemporaryFile("w", suffix=".json", delete=False) as f:
            json.dump(dict(src=item["src"], argv=item["argv"], polluters=POLLUTERS + own, L=item["L"], Lc=item["Lc"], cap=item["cap"], pre=pres[pre],
                           few_histories=item["few"] or not first, pairs=item["pairs"] and first, c_layouts=first), f)
            jp = f.name
        env = dict(os.environ)
        env["PYTHONHASHSEED"] = str(hs)
        env["NV_KEEP_HASHSEED"] = "1"
        try:
            p = subprocess.run([sys.executable, os.path.abspath(__file__), "--child", jp], capture_output=True, text=True, timeout=2400, env=env)
        except subprocess.TimeoutExpired:
            res.append(dict(timed_out=True))      # reported as a cap, never as a verdict
            continue
        finally:
            os.unlink(jp)
        line = next((l for l in p.stdout.splitlines() if l.startswith("RESULT ")), None)
        if line is None:
            return dict(harness_error="child failed (seed %d, pre %s): %s" % (hs, pre, p.stderr[-1500:]))
        res.append(json.loads(line[7:]))
    return dict(children=res)


def children_for(tier, seed, i, label, cover):
    """(PYTHONHASHSEED, what was compiled before the program's first compilation) per child interpreter; the first child is the reference"""
    if label.startswith("SHADOW") or label.startswith("feat-ranges") or label == "feat-word":
        # (byte-class programs: the order in which a set of characters is iterated is a matter of the string hash seed)
        return [(h, "") for h in cover] + [(0, "all"), (0, "strict"), (0, "other")]
    if tier == "thorough":
        return [(h, "") for h in cover[:4]] + [(0, "all"), (0, "strict"), (0, "other")]
    ch = [(0, "")]
    if i % 16 == seed % 16:
        ch += [(h, "") for h in cover[1:4]]
    elif i % 2 == 0:
        ch.append((cover[1 + (i // 2 + seed) % (len(cover) - 1)], ""))
    ch.append((0, ("all", "strict", "other")[(i + seed) % 3]))
    return ch


def run(tier, seed):
    from nv.framework import Check, pmap, sha, harness_fail
    ck = Check("C20", tier, seed, "model_checking",
               rule="per program: child interpreters (PYTHONHASHSEED from a set covering both orders of every pair of name-hashed enum members; interpreters whose FIRST compilation is another program or the same program under flipped options) x "
                    "(recompile, every polluter sequence of length <= 2 incl. the program itself under flipped options, controlled identity-hash layouts); each recompilation compared with the first by verdict and, unless the emitted C is textually the same program (comments aside), "
                    "by exhaustive bisimulation without slack of the two machines and by running both C programs on every string <= 4; children compared by verdict, behaviour table and C trace digests; "
                    "distinct = programs x scenarios compared")
    progs_ = programs(tier, seed)
    cover, n_targets, n_covered = cover_seeds()
    items = [dict(label=p["label"], src=p["src"], argv=p["argv"], children=children_for(tier, seed, i, p["label"], cover),
                  L=4, Lc=4, cap=800 if tier == "quick" else 4000, few=(tier == "quick" and i % 9 != seed % 9 and not p["label"].startswith("SHADOW")), pairs=(tier == "thorough")) for i, p in enumerate(progs_)]
    stats = dict(programs=len(items), accepted=0, children=0, scenarios=0, c_programs_built_and_run=0, recompilations_with_different_c_text=0, recompilations_with_identical_c_text=0, canonical_c_text_varies_between_children=0,
                 hash_seeds=cover, enum_pair_orders_targeted=n_targets, enum_pair_orders_covered=n_covered)
    for idx, r in pmap(run_child, items, timeout=3000 if tier == "quick" else 40000, chunksize=1, stop=ck.enough):
        if "harness_error" in r or "harness_timeout" in r:
            harness_fail("%s on %s" % (r, items[idx]["label"]))
        it = items[idx]
        pairs = [(c, spec) for c, spec in zip(r["children"], it["children"]) if not c.get("timed_out")]
        if len(pairs) < len(r["children"]):
            ck.cap("%s: %d child interpreter(s) exceeded 40 minutes and were dropped" % (it["label"], len(r["children"]) - len(pairs)))
        if not pairs or r["children"][0].get("timed_out"):
            continue
        ch = [c for c, _ in pairs]
        it = dict(it, children=[spec for _, spec in pairs])
        stats["children"] += len(ch)
        v0 = ch[0]["verdict"]
        if v0[0] == "accepted":
            stats["accepted"] += 1
        for i, c in enumerate(ch):
            hs, pre = it["children"][i]
            who = "PYTHONHASHSEED=%d%s" % (hs, (" after compiling %s first" % pre) if pre else "")
            stats["scenarios"] += c["scenarios"]
            stats["c_programs_built_and_run"] += c["c_runs"]
            stats["recompilations_with_different_c_text"] += c.get("text_differs", 0)
            stats["recompilations_with_identical_c_text"] += c.get("same_text", 0)
            ck.add(states=c["states"], transitions=c["trans"], evaluations=c["scenarios"] + c["c_runs"], traces_validated_against_impl=c["scenarios"])
            ck.note((it["label"], i, c["scenarios"]))
            rp = dict(src=it["src"], argv=it["argv"], hashseed=hs, pre=pre)
            for d in c["diffs"]:
                ck.violation("C20:history:%s:%s" % (" ".join(map(str, d["scenario"][:2])), sha(it["src"])[:10]), "%s: %s scenario %s: %s" % (it["label"], who, d["scenario"], d["what"]),
                             dict(rp, scenario=d["scenario"]))
            if c["verdict"] != v0:
                ck.violation("C20:child-verdict:%s" % sha(it["src"])[:10], "%s: verdict %s with %s but %s in the reference interpreter" % (it["label"], c["verdict"], who, v0), dict(rp, scenario=["fresh"]))
            elif c["table"] != ch[0]["table"]:
                ck.violation("C20:child-behaviour:%s" % sha(it["src"])[:10], "%s: behaviour table (all strings <= 4) with %s differs from the reference interpreter's" % (it["label"], who), dict(rp, scenario=["fresh"]))
            elif str(c["cdigest"]).startswith("run:"):
                ck.violation("C20:c-run-failed:%s" % sha(it["src"])[:10], "%s: the generated C could not be run on all strings (%s) with %s, so it cannot be shown to behave like the reference interpreter's" % (it["label"], c["cdigest"], who), dict(rp, scenario=["fresh"]))
            elif c["cdigest"] != ch[0]["cdigest"] and c["reps"] == ch[0]["reps"] and "cbuild_failed" not in (c["cdigest"], ch[0]["cdigest"]):
                ck.violation("C20:child-c-behaviour:%s" % sha(it["src"])[:10], "%s: the generated C run on all strings <= 4 behaves differently with %s than in the reference interpreter" % (it["label"], who), dict(rp, scenario=["fresh"]))
            elif c["ctext"] != ch[0]["ctext"]:
                stats["canonical_c_text_varies_between_children"] += 1
        ck.add(programs=1)
        if idx % 23 == 0:
            ck.sample(dict(program=it["label"], children=it["children"], scenarios_per_child=[c["scenarios"] for c in ch], verdict=v0))
    ck.extra.update(stats)
    ck.exhaustive = True
    ck.assumptions += ["identity-hash order is explored by bounded deviations from creation order (all permutations of the first three instances per class, reversal, a stride permutation), string-hash order by hash seeds "
                       "chosen to cover both orders of every enum-member pair - finite menus, stated as such",
                       "histories inside one child accumulate (every <= 2 sequence is run after the previous ones); each child starts from a fresh interpreter; 'first compilation wins' state is covered by the children that compile something else first",
                       "emitted C text may legitimately differ with layout (state numbering); text is only used to skip C runs when identical - verdict and behaviour are what is compared"]
    return ck.finish()


def replay(path):
    d = json.load(open(path))
    r = run_child(dict(src=d["src"], argv=d["argv"], children=[(0, ""), (d.get("hashseed", 0), d.get("pre", ""))], L=4, Lc=4, cap=4000, few=False, pairs=False))
    bad = False
    if "children" in r:
        ch = [c for c in r["children"] if not c.get("timed_out")]
        bad = any(c["diffs"] for c in ch) or any(c["verdict"] != ch[0]["verdict"] or c["table"] != ch[0]["table"] or (c["cdigest"] != ch[0]["cdigest"] and c["reps"] == ch[0]["reps"]) for c in ch)
        for c in ch:
            print(c["verdict"], c["diffs"][:2])
    else:
        print(r)
    print("REPRODUCED" if bad else "not reproduced")
    return 1 if bad else 0


if __name__ == "__main__":
    if len(sys.argv) > 2 and sys.argv[1] == "--child":
        child_main(sys.argv[2])
