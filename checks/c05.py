"""C05 - optimisation levels and flags never change parser behaviour.

Per program: the machine compiled with every optimisation flag off (-O0) is compared with the machine compiled
under each option set by an exhaustive bisimulation of the two abstract machines on observable event streams
(hook calls with visible outputs, appends, yields, breaks, finishes, consumption points, result codes, final
outputs), with exactly the one-position slack the property grants.  The C binaries of several levels are then
run on the BFS witness inputs and compared with their machines (offset-stamped), which also covers
collapse-transition-ranges (a C-only rewrite).
"""
import itertools
import json
from nv.framework import Check, pmap, sha, harness_fail
from nv import loader, progs, conform, cbuild, bisim
from nv.am import AM, UB, Spin, Malformed

OPT = ["simplify-else-conditions", "remove-inaccesible-states", "use-delete-for-empty-string", "shortcircuit-fallthroughs", "collapse-transition-ranges"]


def optsets(tier):
    out = [["-O1"], ["-O2"], ["-O3"]]
    for f in OPT:
        out.append(["-O0", "-f" + f])
    for f in OPT[:4]:
        out.append(["-O3", "-fno-" + f])
    for v in ("0", "1", "2"):
        out.append(["-O3", "--max-shortcircuit-fallthrough", v])
    out.append(["-O3", "--max-shortcircuit-action-penalty", "0"])
    out.append(["-O2", "--collapsed-range-length", "1"])
    if tier == "thorough":
        for k in range(2, 5):
            for combo in itertools.combinations(OPT, k):
                o = ["-O0"] + ["-f" + f for f in combo]
                if o not in out:
                    out.append(o)
        for v, p in itertools.product(("0", "1", "2", "20"), ("0", "3", "10")):
            out.append(["-O3", "--max-shortcircuit-fallthrough", v, "--max-shortcircuit-action-penalty", p])
        for v in ("2", "4", "300"):
            out.append(["-O2", "--collapsed-range-length", v])
    return out


def check_program(item):
    src, argv, label, osets, want_c = item["src"], item["argv"], item["label"], item["optsets"], item["want_c"]
    res = dict(label=label, status="ok", pairs=0, states=0, trans=0, creplay=0, problems=[], capped=0, shapes=set())
    base = loader.compile_source(src, argv + ["-O0"], codegen=False)
    if base.kind != "accepted":
        res["status"] = base.kind
        # verdict must not depend on optimisation either
        for o in osets[:3]:
            other = loader.compile_source(src, argv + o, codegen=False)
            if other.kind == "accepted" or (base.kind == "internal") != (other.kind == "internal"):
                if base.kind in ("diagnosed", "internal") and other.kind == "accepted":
                    res["problems"].append(dict(kind="verdict", what="rejected at -O0 (%s) but accepted with %s" % (base.detail, o), opts=o, path=""))
                    break
        res["shapes"] = []
        return res
    try:
        A = AM(base.dctx)
    except Malformed as e:
        res["status"] = "malformed"
        res["shapes"] = []
        return res
    wits = None
    for o in osets:
        other = loader.compile_source(src, argv + o, codegen=False)
        if other.kind != "accepted":
            res["problems"].append(dict(kind="verdict", what="accepted at -O0 but %s with %s: %s" % (other.kind, o, other.detail), opts=o, path=""))
            continue
        B = AM(other.dctx)
        reps = bisim.reps_for([A, B])
        r = bisim.bisim(A, B, reps, slack=True, max_states=item.get("cap", 1500), collect_witnesses=24 if wits is None else 0)
        res["pairs"] += 1
        res["states"] += r.states
        res["trans"] += r.trans
        res["shapes"] |= r.shapes
        if wits is None and r.witnesses:
            wits = r.witnesses
        if r.status == "capped":
            res["capped"] += 1
        elif r.status in ("diff", "spin"):
            p = r.path
            if isinstance(p, tuple):
                p = p[0]
            res["problems"].append(dict(kind=r.status, what="-O0 vs %s: %s (input %r%s)" % (" ".join(o), r.why, p, " + end" if isinstance(r.path, tuple) else ""), opts=o, path=(p or b"").hex()))
            if len(res["problems"]) >= 3:
                break
    if want_c and wits and not res["problems"]:
        for o in (["-O0"], ["-O2", "-findirect-start-ptr"], ["-O3", "-findirect-start-ptr"]):
            acc = loader.compile_source(src, argv + o)
            if acc.kind != "accepted":
                continue
            am = AM(acc.dctx)
            try:
                with cbuild.CProg(acc, "gcc0") as cp:
                    for w in wits:
                        prob, n = conform.replay_input(cp, am, w, end=am.eof)
                        res["creplay"] += 1
                        if prob:
                            res["problems"].append(dict(kind="creplay", what="%s: %s" % (" ".join(o), prob), opts=o, path=w.hex()))
                            break
            except cbuild.BuildError as e:
                res["cbuild_failed"] = res.get("cbuild_failed", 0) + 1
    if want_c and not res["problems"]:
        # collapse-transition-ranges only exists in the C: decide it by the exhaustive all-256-bytes single-step comparison (C06's engine) at that flag
        from checks import c06
        for o in (["-O0", "-fcollapse-transition-ranges"], ["-O2", "--collapsed-range-length", "1"], ["-O2", "--collapsed-range-length", "2"],
                  ["-O0", "-fuse-delete-for-empty-string", "-fallocate-str-space-dynamic-on-demand", "-fdelete-string-free-memory"]):
            r6 = c06.check_program(dict(src=src, argv=argv + o, label=label))
            res["creplay"] += r6.get("steps", 0)
            for p in r6.get("problems", [])[:1]:
                res["problems"].append(dict(kind="cstep", what="%s: emitted C differs from its machine: state %s symbol %s: %s" % (" ".join(o), p["state"], p["sym"], p["what"]), opts=o, path=""))
    res["shapes"] = sorted(map(repr, res["shapes"]))
    return res


def programs(tier, seed):
    osets = optsets(tier)
    base = progs.corpus() + progs.features()
    if tier == "quick":
        uni = progs.universe_slice(2, step=331, offset=seed) + progs.universe_slice(1, step=4, offset=seed) + progs.nested_slice(step=211, offset=seed)
    else:
        uni = progs.universe_slice(2, step=7, offset=seed) + progs.universe_slice(1, step=1) + progs.nested_slice(step=13, offset=seed)
    items = []
    for i, p in enumerate(base + uni):
        items.append(dict(label=p["label"], src=p["src"], argv=p["argv"], optsets=osets, want_c=(i % (4 if tier == "quick" else 6) == 0),
                          cap=1500 if tier == "quick" else 6000))
    return items, osets


def run(tier, seed):
    ck = Check("C05", tier, seed, "model_checking",
               rule="program x option set pairs; each pair an exhaustive product search of the -O0 machine and the optimised machine over the union byte partition; "
                    "distinct = (program, step shape) pairs, step shape = (result code, step carried events)")
    items, osets = programs(tier, seed)
    stats = dict(accepted=0, rejected=0, capped_pairs=0, option_sets=len(osets), cbuild_failed=0)
    for idx, r in pmap(check_program, items, timeout=900 if tier == "quick" else 5400, chunksize=2, stop=ck.enough):
        if "harness_error" in r or "harness_timeout" in r:
            harness_fail("%s on %s" % (r, items[idx]["label"]))
        it = items[idx]
        if r["status"] != "ok":
            stats["rejected"] += 1
        else:
            stats["accepted"] += 1
            stats["capped_pairs"] += r["capped"]
            stats["cbuild_failed"] += r.get("cbuild_failed", 0)
            ck.add(programs=1, states=r["states"], transitions=r["trans"], traces_validated_against_impl=r["creplay"], evaluations=r["pairs"])
            for s in r["shapes"]:
                ck.note((r["label"], s))
            if r["capped"]:
                ck.cap("%s: %d pair(s) hit the state cap" % (r["label"], r["capped"]))
            if idx % 97 == 0:
                ck.sample(dict(program=r["label"], pairs=r["pairs"], product_states=r["states"], shapes=r["shapes"][:5]))
        for p in r["problems"]:
            sig = "C05:%s:%s:%s" % (p["kind"], " ".join(p["opts"]), sha(it["src"])[:10])
            ck.violation(sig, "%s: %s" % (it["label"], p["what"]), dict(src=it["src"], argv=it["argv"], opts=p["opts"], path=p["path"], kind=p["kind"]))
    ck.extra.update(stats)
    ck.exhaustive = stats["capped_pairs"] == 0
    ck.assumptions += [
        "hook arguments may differ only for events the two machines emit in different steps; events pending at a FAIL may or may not have run (both as the property allows)",
        "bytes are represented by the lowest and highest member of every block of the union partition of both machines' transition labels; all members of blocks <= 16 bytes when $last is used",
        "pairs that hit the state cap (32-bit counters) are reported as capped, not as exhaustive",
    ]
    return ck.finish()


def replay(path):
    d = json.load(open(path))
    r = check_program(dict(src=d["src"], argv=d["argv"], label="replay", optsets=[d["opts"]], want_c=True))
    for p in r["problems"]:
        print(p["what"])
    print("REPRODUCED" if r["problems"] else "not reproduced")
    return 1 if r["problems"] else 0
