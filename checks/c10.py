"""C10 - result codes and the start pointer follow the documented protocol.

(1) Call-history exploration on the real C against the abstract machine as the monitor: per program (indirect and
direct pointer, strict-done on/off, yields, EOF) every string <= L over the byte-class representatives, in every
composition, each continued after its last call by every sequence of <= 2 further calls from {feed(1 byte),
feed(2 bytes), end}; every call's result code and pointer position must be the machine's (OK => whole chunk
consumed; FAIL => pointer on the machine's offending byte and every later call FAIL; DONE/finish exactly when the
machine terminates with the pointer on the last byte read; yield => pointer at the resume position).
(2) strict-done relation: the strict build's call results equal the non-strict ones except that DONE may move to the
following call.  (3) the in-C exhaustive chunk explorer (C02's engine) with protocol invariants switched on:
OK without consuming the chunk, pointer outside the chunk, non-absorbing FAIL, yield without progress.
"""
import itertools
import json
from nv.framework import Check, pmap, sha, harness_fail
from nv import loader, progs, conform, cbuild, universe as U
from nv.am import AM, UB, Spin, Malformed, END
from checks import c02


def am_history(am, calls):
    """calls: list of ('F', bytes) / ('E',).  -> list of (code, consumed) following the C calling convention:
    a yield is returned to the caller, who re-invokes with the rest of the chunk (done here for chunks of the *input*; suffix calls are single)."""
    cfg, code, ev = am.start()
    out = [("S", code, 0)]
    for c in calls:
        if c[0] == "F":
            code, cons, ev = am.feed(cfg, c[1])
            out.append(("F", code, cons))
        else:
            code, ev = am.end(cfg)
            out.append(("E", code, 0))
    return out


def expand_input(am, data, lens):
    """the call list a well-behaved caller makes for `data` split into chunks `lens`, re-invoking after yields; stops at a terminal code"""
    calls = []
    cfg, code, ev = am.start()
    if code != "OK":
        return calls, True
    p = 0
    for Ln in lens:
        a, b = p, p + Ln
        cur = a
        guard = 0
        while True:
            code, cons, ev = am.feed(cfg, data[cur:b])
            calls.append(("F", bytes(data[cur:b])))
            cur += cons
            guard += 1
            if code.startswith("YIELD") and cur < b and guard < 40:
                continue
            break
        if code != "OK" and not code.startswith("YIELD"):
            return calls, True
        p = b
    return calls, False


def check_program(item):
    src, argv, label, L = item["src"], item["argv"], item["label"], item["L"]
    res = dict(label=label, argv=argv, status="ok", histories=0, calls=0, problems=[], xsched=0, xinv=0, shapes=set())
    acc = loader.compile_source(src, argv)
    if acc.kind != "accepted":
        res["status"] = acc.kind
        res["shapes"] = []
        return res
    try:
        am = AM(acc.dctx)
    except Malformed:
        res["status"] = "malformed"
        res["shapes"] = []
        return res
    reps = c02.pick_reps(am, item.get("ast"), 4)
    try:
        cp = cbuild.CProg(acc, "gcc")
    except cbuild.BuildError:
        res["status"] = "cbuild_failed"
        res["shapes"] = []
        return res
    # a byte the start state asks for: a machine that wrongly restarts after a terminal code then makes visible progress
    sb = next((ord(v) for t in am.dfa.starting_state.transitions if not t.is_fallthrough for v in sorted(x for x in t.on_values if isinstance(x, str))), reps[0])
    suffix_calls = [("F", bytes([sb]))] + ([("F", bytes([reps[0]]))] if reps[0] != sb else []) + [("F", bytes([reps[-1], sb]))] + ([("E",)] if am.eof else [])
    suffixes = [()] + [(x,) for x in suffix_calls] + list(itertools.product(suffix_calls, repeat=2))
    with cp:
        hist = []
        for n in range(0, L + 1):
            for s in itertools.product(reps, repeat=n):
                data = bytes(s)
                comps = [[n]] if n <= 1 else []
                if n > 1:
                    for mask in range(1 << (n - 1)):
                        lens, cur = [], 1
                        for k in range(n - 1):
                            if mask >> k & 1:
                                lens.append(cur)
                                cur = 1
                            else:
                                cur += 1
                        lens.append(cur)
                        comps.append(lens)
                if n == 0:
                    comps = [[]]
                for ci, lens in enumerate(comps):
                    try:
                        calls, term = expand_input(am, data, lens)
                    except (UB, Spin):
                        continue
                    sfx = suffixes if (ci == 0 or ci == len(comps) - 1) else [()]
                    for sf in sfx:
                        hist.append(calls + list(sf))
        # expected results from the AM, script for the C
        ops = []
        exps = []
        for calls in hist:
            try:
                exp = am_history(am, calls)
            except (UB, Spin):
                continue
            o = [cp.op_zero(), cp.op_start()]
            for c in calls:
                o.append(cp.op_feed(c[1]) if c[0] == "F" else cp.op_end())
            ops.append(b"".join(o))
            exps.append((calls, exp))
        recs, status = cp.run(b"".join(ops), timeout=120)
        if status == "timeout":
            res["status"] = "hang"
            res["shapes"] = []
            return res
        if status != "ok":
            res["problems"].append(dict(kind="crash", what="C run ended with %s: %s" % (status, cp.stderr[-200:]), calls=[]))
            res["shapes"] = []
            return res
        ri = 0
        for calls, exp in exps:
            res["histories"] += 1
            failed = False
            for k, e in enumerate(exp):
                while ri < len(recs) and recs[ri][0] == "H":
                    ri += 1
                r = recs[ri]
                ri += 1
                res["calls"] += 1
                res["shapes"].add((e[0], e[1], failed))
                prob = None
                if r[1] != e[1]:
                    prob = "call %d (%s): C returns %s, machine %s" % (k, describe(calls, k), r[1], e[1])
                elif e[0] == "F" and r[2] >= 0 and r[2] != e[2]:
                    prob = "call %d (%s): result %s with pointer advanced by %d, machine consumed %d" % (k, describe(calls, k), r[1], r[2], e[2])
                elif e[0] == "F" and e[1] == "OK" and e[2] != len(calls[k - 1][1]):
                    prob = "call %d: OK returned after consuming %d of %d bytes" % (k, e[2], len(calls[k - 1][1]))
                elif failed and e[1] != "FAIL":
                    prob = "call %d (%s) returns %s after an earlier FAIL" % (k, describe(calls, k), e[1])
                if e[1] == "FAIL":
                    failed = True
                if prob and len(res["problems"]) < 3:
                    res["problems"].append(dict(kind="protocol", what=prob, calls=[(c[0], c[1].hex() if c[0] == "F" else "") for c in calls]))
        # (3) exhaustive chunk explorer with protocol invariants
        recs, status = cp.run(cp.op_exhaust(min(L + 2, 6), reps, do_end=am.eof), timeout=120)
        if status == "ok":
            x = recs[0][1]
            res["xsched"] = x["schedules"]
            res["xinv"] = x["invariant_hits"]
            if x["invariant_hits"]:
                res["problems"].append(dict(kind="invariant", what="%d protocol/invariant hits in the exhaustive chunk exploration (201 OK-without-consuming, 202/203 FAIL not absorbing, 204 pointer outside chunk)" % x["invariant_hits"], calls=[]))
    res["shapes"] = sorted(map(repr, res["shapes"]))
    return res


def describe(calls, k):
    if k == 0:
        return "start"
    c = calls[k - 1]
    return "feed %r" % c[1] if c[0] == "F" else "end"


def strict_relation(item):
    """strict-done may only postpone DONE to the following call"""
    src, argv = item["src"], item["argv"]
    a = loader.compile_source(src, argv, codegen=False)
    if a.kind != "accepted":
        return dict(status=a.kind)
    A = AM(a.dctx)
    b = loader.compile_source(src, argv + ["-fstrict-done-token-generation"], codegen=False)
    if b.kind != "accepted":
        return dict(status="ok", problems=[dict(kind="strict", what="accepted without but %s with -fstrict-done-token-generation" % b.kind, calls=[])], pairs=0)
    B = AM(b.dctx)
    from nv import bisim
    reps = bisim.reps_for([A, B])
    r = bisim.bisim(A, B, reps, slack=True, max_states=1500)
    probs = []
    if r.status == "diff":
        p = r.path if not isinstance(r.path, tuple) else r.path[0]
        probs.append(dict(kind="strict", what="strict-done changes more than the call in which DONE is returned: %s (input %r)" % (r.why, p), calls=[]))
    return dict(status="ok", problems=probs, pairs=1, states=r.states, trans=r.trans)


def ref_position(item):
    """the 'first offending byte' is a statement about the PROGRAM, not about the compiled machine: decide where the parse fails (and where it
    ends) with the reference interpreter and require the machine - and through the replays the C - to fail / finish at exactly that byte"""
    from checks import c01
    r = c01.check_program(dict(ast=item["ast"], label=item["label"], want_c=True, cap=1500, levels=[[], ["-O3"]], extra=item.get("extra", []), c_all_levels=True))
    if r["status"] != "ok":
        return dict(status=r["status"], problems=[])
    probs = []
    for p in r["problems"]:
        if p["kind"] == "mismatch" and any(pred(item["ast"]) for _, pred in c01.KNOWN_SHAPES):
            continue
        if p["kind"] in ("mismatch", "creplay") and ("fail" in p["what"].lower() or "consum" in p["what"].lower() or "DONE" in p["what"] or "FINISH" in p["what"]):
            probs.append(dict(kind="position", what=p["what"] + " %s" % p["argv"], calls=[("F", p["path"])]))
    return dict(status="ok", problems=probs[:2], ref=True, histories=r["states"], calls=r["trans"], xsched=r["creplay"], xinv=0, shapes=[], src=r["src"])


def dispatch(item):
    if item.get("strict"):
        return strict_relation(item)
    if item.get("ref"):
        return ref_position(item)
    return check_program(item)


VARIANTS = [["-findirect-start-ptr"], ["-findirect-start-ptr", "-fstrict-done-token-generation"], [], ["-findirect-start-ptr", "-feof-support"], ["-findirect-start-ptr", "-O3"],
            ["-findirect-start-ptr", "-feof-support", "-fstrict-done-token-generation"]]


def run(tier, seed):
    ck = Check("C10", tier, seed, "model_checking",
               rule="call histories = (string <= L) x (every composition) x (every suffix of <= 2 extra calls after the last one, for the one-chunk and byte-wise compositions); each executed on the C and on the machine; "
                    "distinct = (program, (call kind, result code, after-FAIL?)) pairs; states = histories, transitions = calls")
    L = 3 if tier == "quick" else 4
    base = progs.corpus() + progs.features() + [dict(label="Y#%d" % i, src=s, argv=a, ast=None) for i, (s, a) in enumerate(c02.yield_programs())]
    if tier == "quick":
        uni = progs.universe_slice(2, step=401, offset=seed) + progs.universe_slice(1, step=11, offset=seed)
    else:
        uni = progs.universe_slice(2, step=23, offset=seed) + progs.universe_slice(1, step=2, offset=seed)
    items = []
    for i, p in enumerate(base + uni):
        vs = VARIANTS if tier == "thorough" else [VARIANTS[(i + seed) % len(VARIANTS)], VARIANTS[0]]
        for v in {tuple(x) for x in vs}:
            items.append(dict(label=p["label"], src=p["src"], argv=p["argv"] + [f for f in v if f not in p["argv"]], ast=p.get("ast"), L=L))
        items.append(dict(label=p["label"], src=p["src"], argv=p["argv"], strict=True))
    from checks import c17
    for j, ast in enumerate(c17.eof_universe()):
        if tier == "thorough" or j % 3 == seed % 3:
            items.append(dict(label="EOFREF#%d" % j, src=U.source(tuple(ast)), argv=["-feof-support"], ast=tuple(ast), extra=["-feof-support"], ref=True))
    for j, ast in enumerate(U.handwritten()):
        if tier == "thorough" or j % 2 == seed % 2:
            items.append(dict(label="HWREF#%d" % j, src=U.source(tuple(ast)), argv=U.needs_flags(tuple(ast)), ast=tuple(ast), ref=True))
    stats = dict(items=len(items), accepted=0, rejected=0, cbuild_failed=0, hangs_left_to_C04=0, strict_pairs=0, exhaustive_schedules=0)
    for idx, r in pmap(dispatch, items, timeout=900, chunksize=2, stop=ck.enough):
        if "harness_error" in r or "harness_timeout" in r:
            harness_fail("%s on %s" % (r, items[idx]["label"]))
        it = items[idx]
        if r["status"] == "cbuild_failed":
            stats["cbuild_failed"] += 1
            continue
        if r["status"] == "hang":
            stats["hangs_left_to_C04"] += 1
            continue
        if r["status"] != "ok":
            stats["rejected"] += 1
            continue
        if it.get("strict"):
            stats["strict_pairs"] += r.get("pairs", 0)
            ck.add(states=r.get("states", 0), transitions=r.get("trans", 0))
        else:
            stats["accepted"] += 1
            stats["exhaustive_schedules"] += r["xsched"]
            ck.add(programs=1, states=r["histories"], transitions=r["calls"], traces_validated_against_impl=r["histories"] + r["xsched"], evaluations=r["histories"])
            for s in r["shapes"]:
                ck.note((it["label"], s))
            if idx % 61 == 0:
                ck.sample(dict(program=it["label"], argv=it["argv"], histories=r["histories"], calls=r["calls"], shapes=r["shapes"][:6]))
        for p in r.get("problems", []):
            ck.violation("C10:%s:%s" % (p["kind"], sha(it["src"] + " ".join(it["argv"]))[:10]), "%s %s: %s" % (it["label"], it["argv"], p["what"]),
                         dict(src=it["src"], argv=it["argv"], calls=p["calls"], L=L, strict=bool(it.get("strict")), ref_ast=(repr(it["ast"]) if it.get("ref") else None), extra=it.get("extra", [])))
    ck.extra.update(stats)
    ck.exhaustive = True
    ck.assumptions += ["the abstract machine (bound to the C by C06, to the procedural reading by C01) is the monitor for 'when the program finishes' and 'the offending byte'",
                       "behaviour of calls made after DONE / a finish code is not specified by the property and is only compared with the machine",
                       "feed with an empty chunk is exercised only under C12's zero-length option"]
    return ck.finish()


def replay(path):
    d = json.load(open(path))
    if d.get("ref_ast"):
        r = dispatch(dict(src=d["src"], argv=d["argv"], label="replay", ast=eval(d["ref_ast"]), extra=d.get("extra", []), ref=True))
    else:
        r = dispatch(dict(src=d["src"], argv=d["argv"], label="replay", L=d.get("L", 3), strict=d.get("strict", False)))
    for p in r.get("problems", []):
        print(p["what"])
    print("REPRODUCED" if r.get("problems") else "not reproduced")
    return 1 if r.get("problems") else 0
