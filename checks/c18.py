"""C18 - the compiler always terminates with code or a diagnosed error.

Bounded-exhaustive single-site mutant universe: declaration x default matrices, assignment / append / delete of every
expression kind on every output type, every escape `\\c` for every printable c in every literal context, malformed
\\x / binary / char literals, odd integer widths and string sizes, structural misuse (break / finish / yield / end /
hooks / macros in the wrong place, empty and action-only bodies, degenerate repeats, deep nesting), plus every
identifier-for-identifier swap inside the corpus programs; each under several option sets.
Oracle: the outcome is generated code, a syntax error, an option error or a diagnosed NMFUError whose message
renders; never another exception, never a timeout.
"""
import itertools
import json
import re
from nv.framework import Check, pmap, sha, harness_fail
from nv import loader, progs

OPTSETS = [[], ["-O0"], ["-O3"], ["-feof-support", "-fyield-support"], ["-fallocate-str-space-dynamic-on-demand", "-fdelete-string-free-memory"],
           ["-feof-support", "-fcodepoints-in-errors", "-O2", "--collapsed-range-length", "0"], ["-O2", "--collapsed-range-length", "-3", "--max-shortcircuit-fallthrough", "-1"],
           # (the two sets above are refused as option errors since 759847a; these are their legal neighbours)
           ["-feof-support", "-fcodepoints-in-errors", "-O2", "--collapsed-range-length", "1"], ["-O3", "--collapsed-range-length", "2", "--max-shortcircuit-fallthrough", "0", "-feof-support"]]

OUT_TYPES = ["bool", "int", "int{unsigned}", "int{signed, size 1}", "int{unsigned, size 2}", "int{size 4}", "int{unsigned, size 8}", "enum{A,B}", "str[4]", "unterminated str[4]", "raw{uint32_t}", "raw{uint8_t}"]
ODD_TYPES = ["int{size %d}" % k for k in (0, 3, 5, 6, 7, 9, 16)] + ["int{unsigned, size %d}" % k for k in (0, 3, 5, 6, 7, 9, 16)] + \
            ["int{signed, unsigned}", "int{size 1, size 2}", "enum{A,A}", "enum{A,B,A}", "str[0]", "str[1]", "str[-1]", "str[0x10]", "str[0b11]", "str[70000]", "str[4294967297]", "unterminated str[0]", "unterminated str[1]",
             "raw{float}", "raw{foo_t}", "raw{A}", "str[+3]"]
ATOMS = ["[1 << -1]", "[4 / (1 << -1)]", "[1 >> 100]", "[1 << 100]", "[7 % (3 - 3)]", "[(1 - 1) / 2]", "[-1 >> 1]", "[5 / (2 - 2)]", "true", "false", "5", "-3", "+7", "0x10", "-0x10", "0b11", "'a'", "'\\n'", "'\\q'", "'\\''", '"ab"', '""', '"ab"i', '"6162"b', '"616"b', '"zz"b', "A", "B", "nosuch", "v", "[1 + 2]", "[v + 1]", "[$last]", "[v.len]", "[v[0]]",
         "/a+/", "b/61/", "end", '("a" "b")', "99999999999999999999", "256", "-129", "[1 << 40]", "[1 / 0]", "[!v]", "[-v]", "[v == v]", '"\\xff"', '"\\x00"', '"é"']


def esc_cases():
    out = []
    pr = [chr(c) for c in range(32, 127)]
    for c in pr:
        lit = '"\\%s"' % c
        out.append(('parser { %s; "z"; }' % lit, "escape in match"))
        out.append(('out str[4] s; parser { "a"; s = %s; }' % lit, "escape in assignment"))
        out.append(('out str[4] s = %s; parser { "a"; }' % lit, "escape in default"))
        out.append(('parser { %si; }' % lit, "escape in case-insensitive match"))
        out.append(("parser { /\\%s/; }" % c, "escape in regex"))
        out.append(("parser { /[\\%s]/; }" % c, "escape in regex set"))
        out.append(("out int n = 0; parser { \"a\"; n = '\\%s'; }" % c, "escape in char constant"))
        out.append(("out int n = 0; parser { \"a\"; n = ['\\%s' + 1]; }" % c, "escape in math char constant"))
    for x in ["\\x", "\\xg", "\\x1", "\\x1g", "\\xZZ", "\\xfg", "\\u0041", "\\x411", "\\", "\\x4"]:
        out.append(('parser { "%s"; "z"; }' % x, "malformed \\x in match"))
        out.append(('parser { "a%s"; }' % x, "malformed \\x at the end of a match"))
        out.append(('out str[8] s; parser { "a"; s = "%s"; }' % x, "malformed \\x in assignment"))
        out.append(('out str[8] s = "%sb"; parser { "a"; }' % x, "malformed \\x in default"))
    # every high byte in every literal position (case folding, set membership and emission all handle them separately)
    for c in range(0x80, 0x100):
        out.append(('parser { "a\\x%02x"i; "z"; }' % c, "high byte in a case-insensitive match"))
        out.append(('out str[4] s; parser { "\\x%02x"; s = "\\x%02xq"; }' % (c, c), "high byte in match and assignment"))
        out.append(('parser { /[\\x%02x-\\xff]x/; }' % c, "high byte in a regex range") if False else ('parser { /a|%s/; "z"; }' % chr(c), "raw high character in a regex"))
        out.append(('parser { "%s"i; "z"; }' % chr(c), "raw high character in a case-insensitive match"))
    for b in ['""b', '"6"b', '"61 6"b', '"6g"b', '"61,62"b', '"  "b', '"0x61"b']:
        out.append(('parser { %s; }' % b, "binary literal"))
        out.append(('out str[8] s = %s; parser { "a"; }' % b, "binary default"))
        out.append(('out str[8] s; parser { "a"; s = %s; }' % b, "binary assignment"))
    for r in ["a{0}", "a{3,1}", "a{0,0}", "a{0,40}", "a{40}", "(a{3}){3}", "a{-1}", "a{1,}", "()", "(|a)", "a||b", "[]", "[^]", "[z-a]", "[a-]", "[\\w-z]", ".{0}", "(a*)*", "(a?)+", "((((((a))))))", "a|", "|a", "[\\]]", "\\/", "[a-a]", "[ -~]", "\\S\\s\\W\\w\\D\\d"]:
        out.append(("parser { /%s/; }" % r, "regex shape"))
        out.append(("parser { /%s/; \"z\"; }" % r, "regex shape followed by a match"))
    for r in ["61{0}", "[62-61]", "[^00-ff]", "6", "61 6", "gg", "(61|)", "[61-]", ".{2}"]:
        out.append(("parser { b/%s/; }" % r, "binary regex shape"))
    return out


def after_loop_cases():
    """the statement that follows a loop x the way the loop is left x the enclosing handler: it is carried by the break itself"""
    P = []
    exits = {"break": '/[ab]/; n = [n + 1]; break;', "cond-break": '/[ab]/; n = [n + 1]; if n == 2 { break; }', "case-break": 'case { /[ab]/ -> { n = [n + 1]; } ";" -> { break; } }',
             "optional-break": '/[ab]/; optional { ";"; break; }', "elif-break": '/[ab]/; if n == 1 { n = 2; } elif $last == 98 { break; } else { n = 1; }'}
    after = {"appendc": 's += [65];', "append": 's += /[xy]/;', "set": 'n = 0;', "hook": 'h();', "finish": 'finish F;', "delete": 'delete s;', "setstr": 's = "q";',
             "cond-append": 'if n == 2 { s += [66]; }', "two": 's += [65]; s += [66];'}
    wraps = {"plain": 'loop { %s } %s "z";', "try-oos": 'loop { try { loop { %s } %s "z"; } catch (outofspace) { h(); delete s; "x"; } }', "try": 'try { loop { %s } %s "z"; } catch { h(); "x"; }'}
    for en, e in exits.items():
        for an, a in after.items():
            for wn, w in wraps.items():
                P.append(('out str[3] s; out int{unsigned, size 1} n = 0; hook h; finishcode F; parser { ' + (w % (e, a)) + ' }', "after a loop left by %s: %s (%s)" % (en, an, wn)))
    return P


def structure_cases():
    P = []
    add = lambda s, w: P.append((s, w))
    add('hook h; parser { h(); }', "parser with only an action")
    add('out int n = 0; parser { n = 1; }', "parser with only an assignment")
    add('finishcode F; parser { finish F; }', "parser with only a finish")
    add('parser { finish; }', "parser with only finish")
    add('hook h; parser { loop { h(); } }', "loop with only an action")
    add('hook h; parser { "a"; loop { h(); } }', "loop with only an action after a match")
    add('hook h; parser { optional { h(); } "a"; }', "optional with only an action")
    add('hook h; parser { optional { h(); "a"; } "b"; }', "optional starting with an action")
    add('hook h; parser { try { h(); } catch { "a"; } }', "try with only an action")
    add('hook h; parser { try { "a"; } catch { h(); } }', "catch with only an action")
    add('hook h; parser { foreach { h(); } do { h(); } }', "foreach over an action")
    add('hook h; parser { foreach { "a"; } do { "b"; } }', "match inside foreach actions")
    add('hook h; parser { foreach { "a"; } do { finish; } }', "finish inside foreach actions")
    add('out int n = 0; parser { foreach { "a"; } do { if n == 0 { n = 1; } } "b"; }', "if inside foreach actions")
    add('parser { break; }', "break outside a loop")
    add('parser { "a"; break; }', "break outside a loop after a match")
    add('parser { loop { "a"; break nosuch; } }', "break to an undefined label")
    add('parser { loop x { loop x { "a"; break x; } } }', "duplicate loop label")
    add('parser { loop x { "a"; } loop x { "b"; } }', "reused loop label")
    add('parser { loop { break; } }', "loop with only a break")
    add('parser { loop { "a"; break; "b"; } }', "statement after break")
    add('parser { "a"; finish; "b"; }', "statement after finish")
    add('parser { "a"; finish nosuch; }', "undefined finish code")
    add('yieldcode Y; parser { "a"; yield Y; }', "yield without the flag")
    add('finishcode Y; parser { "a"; yield Y; }', "yield of a finish code")
    add('yieldcode Y; parser { "a"; finish Y; }', "finish of a yield code")
    add('parser { "a"; end; }', "end without the flag")
    add('parser { "a"; nosuch(); }', "call of an undefined hook")
    add('hook h; parser { "a"; h(1, "x"); }', "hook with arguments")
    add('hook h; hook h; parser { "a"; h(); }', "duplicate hook")
    add('out int n; out int n; parser { "a"; }', "duplicate output")
    add('finishcode F, F; parser { "a"; }', "duplicate finish code")
    add('finishcode F; yieldcode F; parser { "a"; }', "finish and yield code of the same name")
    add('macro m() { "a"; } macro m() { "b"; } parser { m(); }', "duplicate macro")
    add('macro m() { m(); } parser { m(); }', "self-recursive macro")
    add('macro m() { } parser { "a"; m(); }', "empty macro")
    add('macro m() { } parser { m(); }', "parser consisting of an empty macro call")
    add('hook m; macro m() { "a"; } parser { m(); }', "hook and macro of the same name")
    add('out int n = 0; parser { "a"; n(); }', "call of an output")
    add('out int n = 0; parser { case { else -> { n = 1; } } }', "case with only else")
    add('parser { case { "a" -> {} "a" -> {} } }', "duplicate case patterns")
    add('parser { case { "a", "a" -> {} } }', "duplicate pattern in one clause")
    add('parser { case { else -> {} else -> {} } }', "two else clauses")
    add('parser { greedy case { prio 999999999999 "a" -> {} prio -1 "b" -> {} } }', "huge / negative priority")
    add('parser { greedy case { prio 1 { "a" -> {} "b" -> {} } } }', "priority block")
    add('parser { try { "a"; } catch (nomatch, nomatch) { } }', "duplicate catch option")
    add('parser { try { "a"; } catch () { } }', "empty catch options")
    add('out str[4] s; parser { if s == "a" { "b"; } }', "string comparison in a condition")
    add('out str[4] s; parser { if s { "b"; } }', "string as a condition")
    add('out int n = 0; parser { if n { "b"; } elif n { "c"; } else { "d"; } }', "integer conditions")
    add('out int n = 0; parser { if $last == 1 { "b"; } }', "$last in a leading condition")
    add('out int n = 0; parser { "a"; n = [$nosuch]; }', "unknown builtin")
    add('out enum{A,B} e; parser { "a"; e = C; }', "undefined enum constant")
    add('out enum{A,B} e; out enum{C,D} f; parser { "a"; e = C; }', "enum constant of another output")
    add('out enum{A,B} e; parser { "a"; if e == A { "b"; } }', "enum comparison")
    add('out enum{A,B} e; parser { "a"; if A == e { "b"; } }', "enum comparison, constant first")
    add('out bool f = false; parser { "a"; f = [f + 1]; }', "arithmetic on bool")
    add('out bool f = false; out int n = 0; parser { "a"; n = [f]; }', "bool assigned to int")
    add('out int n = 0; out bool f = false; parser { "a"; f = [n]; }', "int assigned to bool")
    add('out raw{uint32_t} r; parser { r += /..../; }', "raw append")
    add('out raw{uint32_t} r; parser { "a"; r = 5; }', "raw assignment")
    add('out raw{uint32_t} r = 5; parser { "a"; }', "raw default")
    add('out raw{uint32_t} r; out int n = 0; parser { r += "ab"; n = [r[0] + r.len]; }', "raw index and length")
    add('out str[4] s; parser { wait s; }', "wait on an output")
    add('out str[4] s; parser { s; }', "output as a match")
    add('out str[4] s; parser { s += s; }', "append of an output")
    add('out str[4] s; parser { "a"; s += [65]; wait "ab"; }', "char append before a wait")
    add('out str[4] s; parser { s += [65]; wait "ab"; }', "char append as the first statement")
    add('out str[4] s; parser { s += [65]; }', "char append as the only statement")
    add('out str[4] s; parser { delete s; "a"; }', "delete as the first statement")
    add('out int n = 0; parser { delete n; "a"; }', "delete of an int")
    add('parser { wait end; }', "wait end without the flag")
    add('parser { wait ""; }', "wait on the empty string")
    add('parser { ""; }', "empty string match")
    add('parser { ""; "a"; }', "empty string match before a match")
    add('parser { ""i; "a"; }', "empty case-insensitive match")
    add('parser { (); }', "empty concatenation")
    add('parser { ("a"); }', "single concatenation")
    add('parser { ((("a") "b") ("c")); }', "nested concatenation")
    add('out int n = 0; parser { "a"; n = [1 << 2 << 3]; }', "chained shift")
    add('out int n = 0; parser { "a"; n = [1 < 2 < 3]; }', "chained comparison")
    add('out int n = 0; parser { "a"; n = [(((((((((1)))))))))]; }', "nested parentheses")
    add('out int n = 0; parser { "a"; n = [--1]; }', "double negation")
    add('out int n = 0; parser { "a"; n = [!!1]; }', "double not")
    add('out int n = 0; parser { "a"; n = [n.len]; }', "length of an int")
    add('out int n = 0; parser { "a"; n = [n[0]]; }', "index of an int")
    add('out str[4] s; out int n = 0; parser { "a"; n = [s]; }', "string in math")
    add('out str[4] s; out int n = 0; parser { "a"; n = [s[s.len]]; }', "index by length")
    add('out str[4] s; out int n = 0; parser { "a"; n = [s[\'a\']]; }', "index by char")
    add('out str[4] s; out int n = 0; parser { "a"; n = [s["a"]]; }', "index by string")
    add('out int n = 0; parser { n += "x"; }', "match append to an int")
    add('out int n = 0; parser { "a"; n += [1]; }', "char append to an int")
    add('out bool f = false; parser { f += /a/; }', "match append to a bool")
    add('out enum{A,B} e; parser { e += /a/; }', "match append to an enum")
    deep = "".join("loop { optional { " for _ in range(12)) + '"a"; break;' + "".join(" } } " for _ in range(12))
    add('parser { %s "b"; }' % deep, "deep nesting")
    add('parser { "%s"; }' % ("ab" * 200), "long literal")
    add('out str[300] s; parser { s += /%s/; }' % ("[ab]" * 40), "long regex")
    add('out str[4] s; parser { try { s += /a+/; } catch (outofspace) { s += /b+/; } "c"; }', "append inside its own overflow handler")
    add('out int x = 0; parser { loop { /a+/; if (x == 1) { break; } else { "b"; } } "a"; }', "ambiguity diagnostics with a conditional break")
    add('out str[4] s; out int n = 0; parser { loop { "a"; if n == 1 { break; } } s += [65]; "b"; }', "append after a loop left by a conditional break")
    add('yieldcode T; out int x = 0; parser { loop { /./; if x == 1 { yield T; } } }', "yield inside an if")
    add('parser { optional { end; } end; }', "ambiguous end patterns")
    add('out int n = 0; parser { loop { "a"; if n == 1 { finish; } else { break; } } "b"; }', "finish and break in one action-only if")
    add('out int n = 0; finishcode F; parser { loop { "a"; n = [n + 1]; if n == 1 { finish F; } elif n == 2 { break; } else { n = 0; } } "b"; }', "finish, break and assignment in one if")
    add('out int n = 0; out str[3] s; parser { try { "a"; if n == 1 { s += [65]; } else { finish; } "c"; } catch (outofspace) { "x"; } }', "append and finish in one action-only if inside try")
    add('out int n = 0; out str[3] s; hook h; parser { loop { try { s += /a/; if s.len == 2 { break; } else { h(); } } catch (outofspace) { finish; } } "z"; }', "break next to an append in a try")
    add('parser { optional { "a"; } /[a-c]/; }', "ambiguity diagnostics on a range")
    add('parser { case { /[a-f]+/ -> {} "abc" -> {} } }', "ambiguous case with ranges")
    add('parser { "a"; end; }', "end after a match")
    add('parser { /a{1000}/; "b"; }', "cli: counted repeat of 1000")      # known finding KF24
    # long chains of states (a literal is one state per byte)
    add('hook h; parser { "%s"; h(); "%s"i; }' % ("ab" * 700, "xyz" * 400), "cli: literal of 1400 characters")
    add('out str[8] s; parser { s += /%s[0-9]+/; "%s"b; }' % ("k" * 200, "a1" * 1200), "cli: regex of 200 / binary literal of 1200 bytes")
    add('out int m = 0; parser { "a"; case { end -> { m = 1; } "b" -> { m = 2; } } }', "end as a case label")
    add('hook h; parser { try { "a"; end; } catch { h(); } }', "end inside try")
    add('parser { "a"; optional { end; } end; }', "ambiguous end patterns after a match")
    add('parser { case { end -> {} "a" -> {} } end; }', "ambiguous end after a case")
    add('parser { /a+/; optional { "b"; end; } end; }', "end after an optional ending in end")
    add('parser { /[a-z]+/; /[0-9a-f]/; end; }', "ranges before end")
    add('out enum{aa,Bb,c_d} e; parser { "a"; e = aa; "b"; e = Bb; "c"; if e == c_d { "d"; } }', "lower-case enum constants")
    add('finishcode ok, Fail; yieldcode more; parser { "a"; finish ok; }', "lower-case result codes")
    add('hook Hook_1; out int Out_1 = 0; parser { "a"; Hook_1(); Out_1 = 1; }', "mixed-case names")
    return P


def matrix_cases():
    out = []
    for t in OUT_TYPES + ODD_TYPES:
        out.append(('out %s v; parser { "a"; }' % t, "declaration %s" % t))
        for a in ATOMS:
            out.append(('out %s v = %s; parser { "a"; }' % (t, a), "default %s on %s" % (a, t)))
    for t in OUT_TYPES:
        for a in ATOMS:
            for op in ("=", "+="):
                out.append(('out %s v; out str[4] w; hook h; parser { "a"; v %s %s; h(); "b"; }' % (t, op, a), "%s %s on %s" % (op, a, t)))
        out.append(('out %s v; parser { "a"; delete v; "b"; }' % t, "delete on %s" % t))
        out.append(('out %s v; parser { if v == 1 { "a"; } else { "b"; } }' % t, "condition on %s" % t))
        out.append(('out %s v; parser { "a"; if v { "b"; } }' % t, "truth of %s" % t))
        out.append(('out %s v; out int n = 0; parser { "a"; n = [v.len + v[0]]; }' % t, "len/index on %s" % t))
    return out


def corpus_swaps(tier, seed):
    out = []
    k = 0
    for p in progs.corpus():
        src = p["src"]
        ids = sorted(set(re.findall(r"\b[A-Za-z_][A-Za-z_0-9]*\b", src)) - {"out", "parser", "hook", "macro", "loop", "case", "greedy", "optional", "try", "catch", "foreach", "do", "if", "elif", "else", "wait", "finish", "yield",
                                                                         "break", "delete", "end", "int", "bool", "enum", "str", "raw", "unterminated", "signed", "unsigned", "size", "true", "false", "prio", "finishcode", "yieldcode",
                                                                         "nomatch", "outofspace", "match", "expr", "args", "b", "i"})
        ids = [i for i in ids if len(i) > 1][:14]
        for m in re.finditer(r"\b[A-Za-z_][A-Za-z_0-9]*\b", src):
            if m.group(0) not in ids:
                continue
            # only outside string / regex literals and comments (cheap test on the line prefix)
            line_start = src.rfind("\n", 0, m.start()) + 1
            prefix = src[line_start:m.start()]
            if prefix.count('"') % 2 or prefix.count("/") % 2 or "//" in prefix:
                continue
            for r in ids:
                if r == m.group(0):
                    continue
                k += 1
                if k % (41 if tier == "quick" else 3) != seed % (41 if tier == "quick" else 3):
                    continue
                out.append((src[:m.start()] + r + src[m.end():], "corpus %s: %s -> %s" % (p["label"], m.group(0), r), p["argv"]))
    return out


def check(item):
    src, why, argv = item
    if why.startswith("cli:"):
        # through the real command line (default recursion limit, main()'s own error handling)
        rc, h, c, tail = loader.compile_cli(src, argv, timeout=100)
        kind = "accepted" if rc == 0 else ("timeout" if rc == -9 else ("internal" if "Traceback" in tail else "diagnosed"))
        last = tail.strip().splitlines()[-1][:160] if tail.strip() else ""
        return dict(kind=kind, detail=last, where="main", cls=(last.split(":")[0] if kind == "internal" else None))
    o = loader.compile_source(src, argv, codegen=True, timeout=5 if "contradictory" in why else 20)
    res = dict(kind=o.kind, detail=o.detail[:160], where=getattr(o, "where", None), cls=getattr(o, "cls", None))
    if o.kind == "diagnosed" and not o.message:
        res["kind"] = "internal"
        res["detail"] = "empty diagnostic"
    return res


def run(tier, seed):
    ck = Check("C18", tier, seed, "exploration",
               rule="single-site mutants (matrices, escapes, structure, corpus identifier swaps) x option sets; distinct = distinct (outcome kind, error class, diagnostic phase) per mutant family; "
                    "evaluations = compilations")
    ck.stop_on_duplicates = False
    cases = [(s, w, []) for s, w in esc_cases() + structure_cases() + after_loop_cases() + matrix_cases()] + corpus_swaps(tier, seed)
    # one block nested in another (the universe of C01): compiled only; a rotating quarter in the quick tier
    from nv import universe as U
    for i, p in enumerate(U.enumerate_nested()):
        if tier == "thorough" or i % 4 == seed % 4:
            cases.append((U.source(p), "nested blocks N#%d" % i, U.needs_flags(p)))
    items = []
    for i, (s, w, a) in enumerate(cases):
        osets = OPTSETS if (tier == "thorough" or i % 5 == seed % 5 or (re.search(r"\bend\b", s) and "nested blocks" not in w)) else [OPTSETS[0], OPTSETS[1 + i % 8], OPTSETS[7 + i % 2]]
        if w.startswith("cli:"):
            osets = [[]]
        for o in osets:
            items.append((s, w, a + [x for x in o if x not in a]))
    # contradictory option sets (a flag requested together with the negation of what it implies) on a few programs
    for s_, w_, a_ in cases[:12]:
        for o in (["-fyield-support", "-fno-indirect-start-ptr"], ["-fallocate-str-space-dynamic", "-fno-dynamic-memory"], ["-fallocate-str-space-dynamic-on-demand", "-fno-allocate-str-space-dynamic"]):
            items.append((s_, w_ + " / contradictory options", a_ + o))
    outcomes = {}
    for idx, r in pmap(check, items, timeout=120, chunksize=32, stop=ck.enough):
        if "harness_error" in r or "harness_timeout" in r:
            harness_fail("%s on %s" % (r, items[idx][1]))
        src, why, argv = items[idx]
        ck.add(evaluations=1)
        outcomes[r["kind"]] = outcomes.get(r["kind"], 0) + 1
        ck.note((why.split(":")[0].split(" on ")[0][:24], r["kind"], r["cls"]))
        if idx % 9001 == 0:
            ck.sample(dict(source=src, argv=argv, outcome=r["kind"], detail=r["detail"]))
        if r["kind"] in ("internal", "timeout"):
            root = "%s:%s" % (r["where"], r["cls"]) if r["kind"] == "internal" else "timeout"
            if why.startswith("cli: counted repeat") and r["kind"] == "internal" and r["cls"] == "RecursionError":
                root = "KF24:counted-repeat-recursion"
            ck.violation("C18:%s" % root, "%s [%s] -> %s %s | %s" % (why, " ".join(argv), r["kind"], r["detail"], src.replace("\n", " ")[:300]), dict(src=src, argv=argv, why=why))
    ck.extra["outcomes"] = outcomes
    ck.extra["mutants"] = len(cases)
    ck.exhaustive = True
    ck.assumptions += ["mutants are single-site and drawn from finite menus; sources that the grammar rejects count as legal outcomes (syntax error)",
                       "violations are grouped by the innermost nmfu function and exception class (one root cause, one signature)"]
    return ck.finish()


def replay(path):
    d = json.load(open(path))
    r = check((d["src"], d["why"], d["argv"]))
    print(r)
    bad = r["kind"] in ("internal", "timeout")
    print("REPRODUCED" if bad else "not reproduced")
    return 1 if bad else 0
