"""C11 - every accepted program compiles cleanly in every option combination.

Programs covering every output type, action and node kind (corpus, feature, buffer-operation, yield and hand-written
programs) x a t-wise covering array (pairs; thorough: triples) over 15 code-generation factors (optimisation level,
EOF, yield, indirect pointer, strict done, zero-length, string storage x5, u8, hook placement, user pointer, packed
enums, pragma once, C++ guard, unsafe indexing, range collapsing x4).  Every emitted header/source pair must compile
without warnings under gcc -std=c99 and -std=c11 and clang, all with -Wall -Werror (-Wno-unused-label), the header
alone must be valid C and valid C++, and the header must declare exactly the documented API.
"""
import itertools
import json
import os
import re
import shutil
import subprocess
import tempfile
from nv.framework import Check, pmap, sha, harness_fail
from nv import loader, progs, strprogs, cbuild, universe as U
from checks import c02, c12

FACTORS = [
    ("level", [["-O1"], ["-O0"], ["-O2"], ["-O3"]]),
    ("eof", [[], ["-feof-support"]]),
    ("yield", [[], ["-fyield-support"]]),
    ("pointer", [[], ["-findirect-start-ptr"]]),
    ("strict", [[], ["-fstrict-done-token-generation"]]),
    ("zerolen", [[], ["-fzero-len-input-support"]]),
    ("storage", [[], ["-fallocate-str-space-dynamic"], ["-fallocate-str-space-dynamic-on-demand"], ["-fallocate-str-space-dynamic-on-demand", "-fdelete-string-free-memory"], ["-fallocate-str-space-dynamic", "-fdelete-string-free-memory"]]),
    ("u8", [[], ["-fstrings-as-u8"]]),
    ("hooks", [[], ["-fhook-per-state", "-fno-hook-global"]]),
    ("userptr", [[], ["-finclude-user-ptr"]]),
    ("packed", [[], ["-fuse-packed-enums"]]),
    ("pragma", [[], ["-fuse-pragma-once"]]),
    ("cppguard", [[], ["-fno-use-cplusplus-guard"]]),
    ("unsafe", [[], ["-funsafe-string-indexing"]]),
    ("collapse", [[], ["-fcollapse-transition-ranges", "--collapsed-range-length", "1"], ["-fcollapse-transition-ranges", "--collapsed-range-length", "300"], ["-fno-collapse-transition-ranges"]]),
]

COMPILERS = [
    ("gcc-c99", ["gcc", "-std=c99", "-Wall", "-Werror", "-Wno-unused-label", "-c", "-o", "/dev/null", "{c}"]),
    ("gcc-c11", ["gcc", "-std=c11", "-Wall", "-Werror", "-Wno-unused-label", "-c", "-o", "/dev/null", "{c}"]),
    ("clang", ["clang", "-std=c99", "-Wall", "-Werror", "-Wno-unused-label", "-c", "-o", "/dev/null", "{c}"]),
    ("header-c", ["gcc", "-std=c99", "-Wall", "-Werror", "-fsyntax-only", "-x", "c", "{hc}"]),
    ("header-c++", ["g++", "-std=c++11", "-Wall", "-Werror", "-fsyntax-only", "-x", "c++", "{hc}"]),
]


FILE_NAMES = ["3dmodel", "9", "my-file", "a.b", "_x", "x y", "h\u00e9", "2-3", "-", "Mixed9Case", "for", "0x1f"]


def covering(t):
    saved = c12.FACTORS
    try:
        c12.FACTORS = FACTORS
        return c12.covering(t)
    finally:
        c12.FACTORS = saved


def flags_of(row):
    out = []
    for (name, vals), v in zip(FACTORS, row):
        out += vals[v]
    return out


def api_problems(acc, header):
    PD, PF = loader.N.ProgramData, loader.N.ProgramFlag
    name = acc.name
    probs = []

    def has(pat):
        return re.search(pat, header) is not None
    if not has(r"\b%s_start\s*\(" % name):
        probs.append("start is not declared")
    if not has(r"\b%s_feed\s*\(" % name):
        probs.append("feed is not declared")
    if has(r"\b%s_end\s*\(" % name) != PD.do(PF.EOF_SUPPORT):
        probs.append("end declared iff EOF support violated")
    if has(r"\b%s_free\s*\(" % name) != PD.do(PF.DYNAMIC_MEMORY):
        probs.append("free declared iff dynamic memory violated")
    for h in acc.dctx.hooks:
        proto = has(r"\bvoid\s+%s_%s_hook\s*\(" % (name, h))
        member = has(r"\b%s_hook_t\s+%s_hook\s*;" % (name, h))
        if proto == member:
            probs.append("hook %s is declared as %s" % (h, "both prototype and member" if proto else "neither prototype nor member"))
        if proto != PD.do(PF.HOOK_GLOBAL) and (proto or member):
            probs.append("hook %s placement does not follow the option" % h)
    for c in acc.dctx.finish_codes:
        if len(re.findall(r"\b%s_FINISH_%s\b" % (name.upper(), c), header)) != 1:
            probs.append("finish code %s does not have exactly one enumerator" % c)
    for c in acc.dctx.yield_codes:
        if len(re.findall(r"\b%s_YIELD_%s\b" % (name.upper(), c), header)) != 1:
            probs.append("yield code %s does not have exactly one enumerator" % c)
    for c in ("OK", "FAIL", "DONE"):
        if len(re.findall(r"\b%s_%s\b" % (name.upper(), c), header)) != 1:
            probs.append("result %s does not have exactly one enumerator" % c)
    indirect = PD.do(PF.INDIRECT_START_PTR)
    if has(r"_feed\s*\(\s*const uint8_t \*\*\s*start") != indirect:
        probs.append("feed's start parameter does not follow -findirect-start-ptr")
    return probs


def check_item(item):
    src, argv, label = item["src"], item["argv"], item["label"]
    res = dict(label=label, argv=argv, status="ok", runs=0, problems=[])
    acc = loader.compile_source(src, argv, name=item.get("name", "p"))
    if acc.kind != "accepted":
        res["status"] = acc.kind
        res["detail"] = acc.detail
        return res
    d = tempfile.mkdtemp(prefix="nvc11", dir=cbuild.SCRATCH)
    try:
        h = os.path.join(d, acc.name + ".h")
        c = os.path.join(d, acc.name + ".c")
        open(h, "w").write(acc.header)
        open(c, "w").write(acc.source)
        hc = os.path.join(d, "only_header.c")     # the header alone, included twice (guard) from an otherwise empty file
        open(hc, "w").write('#include "%s.h"\n#include "%s.h"\n%s_state_t nv_instance;\n' % (acc.name, acc.name, acc.name))
        for cname, cmd in COMPILERS:
            r = subprocess.run([x.format(c=c, h=h, hc=hc) for x in cmd], capture_output=True, text=True, cwd=d)
            res["runs"] += 1
            if r.returncode:
                first = next((l for l in r.stderr.splitlines() if "error" in l or "warning" in l), r.stderr[:200])
                first = re.sub(r"^.*?/(%s\.[ch]):" % acc.name, r"\1:", first)
                res["problems"].append(dict(kind=cname, what=first.strip()[:300]))
        for p in api_problems(acc, acc.header):
            res["problems"].append(dict(kind="api", what=p))
    finally:
        shutil.rmtree(d, ignore_errors=True)
    return res


def programs(tier, seed):
    base = progs.corpus() + progs.features() + [dict(label=p["label"], src=p["src"], argv=[]) for p in strprogs.programs()]
    base += [dict(label=l, src=s_, argv=list(a)) for l, a, s_ in progs.CODEGEN_REJECTED]     # if one of these is ever accepted, what is emitted must still compile
    base += [dict(label="Y#%d" % i, src=s, argv=a) for i, (s, a) in enumerate(c02.yield_programs())]
    base += [dict(label="HW#%d" % j, src=U.source(tuple(p)), argv=U.needs_flags(tuple(p))) for j, p in enumerate(U.handwritten())]
    from checks import c17
    base += [dict(label="EOF#%d" % j, src=U.source(tuple(p)), argv=["-feof-support"]) for j, p in enumerate(c17.eof_universe()) if j % (7 if tier == "quick" else 2) == seed % (7 if tier == "quick" else 2)]
    from checks import c16
    for j, pat in enumerate(c16.PATTERNS):
        for ctx in ("plain", "loop"):
            if (j + seed) % (3 if tier == "quick" else 1) == 0:
                base.append(dict(label="WAIT#%d%s" % (j, ctx), src=U.source(c16.program(pat, ctx)), argv=[]))
    uni = progs.universe_slice(1, step=17 if tier == "quick" else 3, offset=seed) + progs.universe_slice(2, step=1201 if tier == "quick" else 67, offset=seed)
    return base + uni


def run(tier, seed):
    ck = Check("C11", tier, seed, "exploration",
               rule="program x row of a pairwise (thorough: 3-wise) covering array over 15 code-generation factors x 5 compiler invocations + declared-API check; "
                    "distinct = (program, option row) pairs that were accepted and compiled; evaluations = compiler invocations")
    rows = covering(2 if tier == "quick" else 3)
    ps = programs(tier, seed)
    items = []
    for i, p in enumerate(ps):
        rs = rows if (tier == "thorough" and i < 120) else rows[(i + seed) % 4::4]
        for r in rs:
            fl = flags_of(r)
            items.append(dict(label=p["label"], src=p["src"], argv=p["argv"] + [f for f in fl if f not in p["argv"]]))
    # the output name is derived from the input file's name when no -o is given: whatever the file is called, the emitted identifiers must be C
    for p in [x for x in ps if x["label"] in ("feat-lowercase", "feat-eof", "feat-strings")]:
        for fname in FILE_NAMES:
            for r in rows[(len(fname) + seed) % 8::8]:
                fl = flags_of(r)
                items.append(dict(label=p["label"] + " as file " + repr(fname), src=p["src"], argv=p["argv"] + [f for f in fl if f not in p["argv"]], name=fname))
    stats = dict(option_rows=len(rows), programs=len(ps), accepted=0, rejected=0)
    for idx, r in pmap(check_item, items, timeout=600, chunksize=4, stop=ck.enough):
        if "harness_error" in r or "harness_timeout" in r:
            harness_fail("%s on %s" % (r, items[idx]["label"]))
        it = items[idx]
        if r["status"] != "ok":
            stats["rejected"] += 1
            continue
        stats["accepted"] += 1
        ck.add(evaluations=r["runs"], programs=1)
        ck.note((it["label"], " ".join(it["argv"])))
        if idx % 211 == 0:
            ck.sample(dict(program=it["label"], argv=it["argv"], compiler_runs=r["runs"]))
        for p in r["problems"]:
            root = classify(p)
            ck.violation(root or "C11:%s:%s:%s" % (p["kind"], re.sub(r"[0-9]+", "N", p["what"])[:60], sha(it["src"])[:6]), "%s %s: [%s] %s" % (it["label"], " ".join(it["argv"]), p["kind"], p["what"]),
                         dict(src=it["src"], argv=it["argv"], kind=p["kind"], name=it.get("name", "p")))
    ck.extra.update(stats)
    ck.exhaustive = False
    ck.assumptions += ["gcc 12 / clang 14 / g++ 12 on this image; -Wno-unused-label as the property allows",
                       "t-wise coverage of option values (pairs quick, triples thorough), not the full product; option rows the compiler rejects for a program (e.g. hooks without a hook mode) are counted as rejected"]
    return ck.finish()


def classify(p):
    return None


def replay(path):
    d = json.load(open(path))
    r = check_item(dict(src=d["src"], argv=d["argv"], label="replay", name=d.get("name", "p")))
    for p in r["problems"]:
        print(p)
    print("REPRODUCED" if r["problems"] else "not reproduced")
    return 1 if r["problems"] else 0
