"""C07 - a compiled regular expression accepts exactly its language.

Every regex AST up to a size bound over an atom menu (text form and binary form) is printed, compiled as
`parser { /re/; }` with EOF support, and the reachable states of (AM state x Brzozowski-derivative state) are
explored over the lowest+highest byte of every block of the source partition, plus end-of-input from every
product state.  Oracle per product state / step:
  machine state accepting  <=>  derivative nullable          (also: end() returns DONE <=> nullable)
  machine FAILs on byte c  <=>  derivative successor is dead (no member reachable), at exactly that byte
  machine DONE on byte c   =>   successor nullable and nothing can follow
"""
import json
from nv.framework import Check, pmap, sha, harness_fail
from nv import loader, conform, cbuild, deriv as D, universe as U
from nv.am import AM, UB, Spin, END

TEXT_ATOMS = ["a", "b", ".", "[ab]", "[^a]", "[^ab]", "[a-c]", "\\d", "\\w", "\\W", "\\s", "\\S", "\\n", "\\.", "\\ ", "\\D", "[^\\w]", "[\\d_]", "[^a\\d]",
              "[\\W\\D]", "[\\S\\D]", "[^\\W\\D]", "[\\W\\S]", "[a\\W]", "[\\w\\s]", "[^\\W\\s]", "[\\D\\d]", "[^\\D]", "\\t", "\\r", "\\*", "\\\\", "\\/", "\\[", "$", "[b-da]", "[0-3]"]
BIN_ATOMS = [U.batom_byte(0x61), U.batom_byte(0x62), U.atom(".", U.ALL), U.batom_set([0x61, 0x62]), U.batom_set([0x61], True),
             U.batom_range(0x61, 0x63), U.batom_byte(0xff), U.batom_range(0x80, 0xff), U.batom_byte(0x00), U.batom_set([0x00, 0xff], True)]
QUANTS = ["*", "+", "?"]
REPS = [(2,), (1, 2), (2, None), (0, 1), (0, 2), (3,), (1, 3), (0, None), (1, None), (1,), (0, 3), (3, None), (2, 3)]


def gen(size, atoms, reps_upto=2):
    """all surface regexes with exactly `size` nodes"""
    if size == 1:
        yield from atoms
        return
    for a in gen(size - 1, atoms, reps_upto):
        if a[0] != "q":
            for k in QUANTS:
                yield ("q", a, k)
            if size - 1 <= reps_upto:
                for k in REPS:
                    yield ("q", a, k)
    for k in range(1, size - 1):
        for a in gen(k, atoms, reps_upto):
            for b in gen(size - 1 - k, atoms, reps_upto):
                yield ("seq", (a, b))
                yield ("alt", (a, b))


def universe(tier, seed):
    """-> list of (kind, surface)"""
    out = []
    ta = [U.RX_ATOMS[x] for x in TEXT_ATOMS]
    if tier == "quick":
        tmax, bmax = 3, 3
        ta4 = ta[:7]
    else:
        tmax, bmax = 4, 4
        ta4 = ta[:9]
    for s in range(1, tmax + 1):
        for r in gen(s, ta):
            out.append(("re", r))
    for s in range(1, bmax + 1):
        for r in gen(s, BIN_ATOMS if s <= 3 else BIN_ATOMS[:6]):
            out.append(("bre", r))
    # next size over a reduced menu (complete for that menu), rotated slice by seed for the size after that
    nxt = tmax + 1
    for r in gen(nxt, ta4):
        out.append(("re", r))
    if tier == "thorough":
        extra = list(gen(nxt + 1, ta[:5]))
        out += [("re", r) for r in extra]
    else:
        extra = list(gen(nxt + 1, ta[:4]))
        k = 8
        out += [("re", r) for i, r in enumerate(extra) if i % k == seed % k]
    # corpus / documentation regexes
    return out


def check_regex(item):
    kind, surf, want_c = item
    txt = U.m_text((kind, surf))
    src = "parser { %s; }\n" % txt
    res = dict(txt=txt, status="ok", states=0, trans=0, problem=None, path=None, creplay=0, shapes=[])
    acc = loader.compile_source(src, ["-feof-support"], codegen=want_c, timeout=8)
    if acc.kind != "accepted":
        res["status"] = acc.kind
        res["detail"] = acc.detail
        return res
    am = AM(acc.dctx)
    acc2 = loader.compile_source("parser { %s; end; }\n" % txt, ["-feof-support"], codegen=False, timeout=8)
    am2 = AM(acc2.dctx) if acc2.kind == "accepted" else None
    if am2 is None:
        res["problem"] = "`/re/;` accepted but `/re/; end;` is not: %s" % acc2.detail
        res["path"] = ""
        return res
    r0 = U.rx_core(surf)
    blocks = D.partition(D.symbols_of(r0))
    reps = D.representatives(blocks)
    dfa = D.Dfa(r0, reps)
    cfg0, code0, _ = am.start()
    init = (am.state_index(cfg0), r0)
    seen = {init: b""}
    front = [init]
    shapes = set()

    def bad(why, path):
        res["problem"] = why
        res["path"] = path.hex()
        return res

    while front:
        key = front.pop(0)
        si, q = key
        path = seen[key]
        res["states"] += 1
        st = am.states[si]
        acc_am = id(st) in am.acc
        if acc_am != D.nullable(q):
            return bad("after %r machine state is %saccepting but the string is %sin the language" % (path, "" if acc_am else "not ", "" if D.nullable(q) else "not "), path)
        # end of input from this product state: decided on the twin program `parser { /re/; end; }`
        if am2 is not None:
            try:
                c2, cfg2, _ = conform.am_run(am2, path, end=True)[0][-1][1], None, None
            except (UB, Spin):
                c2 = None
            res["trans"] += 1
            if c2 is not None and (c2 == "DONE") != D.nullable(q):
                return bad("`/re/; end;`: end() after %r returns %s but the string is %sin the language" % (path, c2, "" if D.nullable(q) else "not "), path + b"<END>")
        for c in reps:
            cfg = am.mkcfg(si, {})
            code, adv, ev = am.feed_byte(cfg, c)
            res["trans"] += 1
            d = D.deriv(q, c)
            dead = dfa.dead(d)
            shapes.add((code, dead))
            p2 = path + bytes([c])
            if code == "FAIL":
                if not dead:
                    return bad("machine fails at %r although a member of the language is still reachable" % p2, p2)
                continue
            if dead:
                return bad("machine returns %s at %r although no member of the language is reachable any more" % (code, p2), p2)
            if code == "DONE":
                if not D.nullable(d):
                    return bad("machine reports DONE at %r which is not in the language" % p2, p2)
                if any(not dfa.dead(D.deriv(d, c2)) for c2 in reps):
                    return bad("machine reports DONE at %r although longer members exist" % p2, p2)
                continue
            if code != "OK":
                return bad("unexpected result %s at %r" % (code, p2), p2)
            k2 = (am.state_index(cfg), d)
            if k2 not in seen:
                seen[k2] = p2
                front.append(k2)
        if res["states"] > 4000:
            res["status"] = "capped"
            break
    res["shapes"] = sorted(map(repr, shapes))
    # uniformity of the machine on each block (justifies stepping on representatives)
    for si, st in enumerate(am.states):
        if isinstance(st, loader.N.DFConditionPoint):
            continue
        for b in blocks:
            ts = set(id(am.pick(st, chr(x))) for x in b)
            if len(ts) > 1:
                return bad("state %d treats bytes of one source class differently (class containing %d)" % (si, min(b)), b"")
    if want_c:
        try:
            with cbuild.CProg(acc, "gcc0") as cp:
                for key, path in list(seen.items())[:40]:
                    for tail in (b"", bytes([reps[0]]), bytes([reps[-1]])):
                        prob, n = conform.replay_input(cp, am, path + tail, end=True)
                        res["creplay"] += 1
                        if prob:
                            return bad("C replay: " + prob, path + tail)
        except cbuild.BuildError as e:
            return bad("C build failed: " + str(e)[:200], b"")
    return res


def run(tier, seed):
    ck = Check("C07", tier, seed, "model_checking",
               rule="all regex ASTs up to the size bound (text and binary spelling); product of compiled machine and derivative automaton explored to a fixpoint; "
                    "distinct = distinct regex texts whose search saw at least a FAIL-on-dead and an OK/DONE-on-live step")
    uni = universe(tier, seed)
    seen_txt = set()
    items = []
    cslice = 16 if tier == "quick" else 8
    for i, (kind, surf) in enumerate(uni):
        t = U.m_text((kind, surf))
        if t in seen_txt:
            continue
        seen_txt.add(t)
        items.append((kind, surf, len(items) % cslice == seed % cslice))
    stats = dict(regexes=len(items), rejected=0, capped=0)
    for idx, r in pmap(check_regex, items, timeout=300, chunksize=8, stop=ck.enough):
        if "harness_error" in r or "harness_timeout" in r:
            harness_fail("%s on %s" % (r, U.m_text(items[idx][:2])))
        if r["status"] not in ("ok", "capped"):
            stats["rejected"] += 1
            if r["status"] in ("internal", "timeout"):
                ck.violation("C07:compiler:%s" % r.get("detail", "")[:60], "regex %s: compiler %s %s" % (r["txt"], r["status"], r.get("detail")), dict(txt=r["txt"], kind=items[idx][0]))
            continue
        if r["status"] == "capped":
            stats["capped"] += 1
            ck.cap("state cap on " + r["txt"])
        ck.add(programs=1, states=r["states"], transitions=r["trans"], traces_validated_against_impl=r["creplay"], evaluations=1)
        if len(r["shapes"]) >= 2:
            ck.note(r["txt"])
        if idx % 1500 == 0:
            ck.sample(dict(regex=r["txt"], product_states=r["states"], step_shapes=r["shapes"]))
        if r["problem"]:
            ck.violation("C07:" + r["problem"].split(" at ")[0][:40] + ":" + r["txt"], "%s : %s" % (r["txt"], r["problem"]),
                         dict(txt=r["txt"], kind=items[idx][0], path=r["path"], surf=repr(items[idx][1])))
    ck.extra.update(stats)
    ck.exhaustive = stats["capped"] == 0
    ck.assumptions += ["\\w = [A-Za-z0-9_], \\d = [0-9], \\s = space,\\t,\\n,\\r,\\v,\\f as in POSIX; their complements for the upper-case classes",
                       "stepping on the lowest and highest byte of each source class is justified by the per-state uniformity check performed on every machine",
                       "C replay is done for a 1/%d slice of the regexes (BFS witness paths + one-byte tails, one chunk and byte-wise, then end())" % cslice]
    return ck.finish()


def replay(path):
    d = json.load(open(path))
    surf = eval(d["surf"])  # our own AST literal written by this check
    r = check_regex((d["kind"], surf, True))
    print(r["txt"], r["problem"], r.get("path"))
    print("REPRODUCED" if r["problem"] else "not reproduced")
    return 1 if r["problem"] else 0
