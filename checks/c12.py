"""C12 - representation options never change what is parsed.

Differential exploration of the real C: one program is built under a pairwise-covering set of representation option
sets (string storage in-struct / heap / heap-on-demand / freed-on-delete, char vs uint8_t strings, global vs per-state
hooks, user pointer, packed enums, pragma once, C++ guard, direct vs indirect start pointer, zero-length support,
range-collapse threshold); for EVERY string <= L over the program's alphabet the representation-independent trace
(result codes, hook sequence with arguments and visible outputs, yields, final contents and lengths) is hashed, fed
in one chunk and byte-wise, and the hash lists must be identical to the baseline build's.
"""
import itertools
import json
from nv.framework import Check, pmap, sha, harness_fail
from nv import loader, progs, cbuild, strprogs, conform
from nv.am import AM, Malformed
from checks import c02

FACTORS = [
    ("storage", [[], ["-fallocate-str-space-dynamic"], ["-fallocate-str-space-dynamic-on-demand"], ["-fallocate-str-space-dynamic-on-demand", "-fdelete-string-free-memory"], ["-fallocate-str-space-dynamic", "-fdelete-string-free-memory"]]),
    ("u8", [[], ["-fstrings-as-u8"]]),
    ("hooks", [[], ["-fhook-per-state", "-fno-hook-global"]]),
    ("userptr", [[], ["-finclude-user-ptr"]]),
    ("packed", [[], ["-fuse-packed-enums"]]),
    ("pragma", [[], ["-fuse-pragma-once"]]),
    ("cppguard", [[], ["-fno-use-cplusplus-guard"]]),
    ("pointer", [[], ["-findirect-start-ptr"]]),
    ("zerolen", [[], ["-fzero-len-input-support"]]),
    ("collapse", [[], ["-fcollapse-transition-ranges", "--collapsed-range-length", "1"], ["-fcollapse-transition-ranges", "--collapsed-range-length", "300"], ["-fcollapse-transition-ranges"]]),
]


def covering(t=2):
    """greedy t-wise covering array over FACTORS; deterministic"""
    idx = [list(range(len(v))) for _, v in FACTORS]
    need = set()
    for cols in itertools.combinations(range(len(FACTORS)), t):
        for vals in itertools.product(*[idx[c] for c in cols]):
            need.add((cols, vals))
    rows = []
    while need:
        best, bestcov = None, -1
        # candidate rows: extend from an uncovered tuple, fill the rest greedily
        for cols, vals in sorted(need)[:40]:
            row = [None] * len(FACTORS)
            for c, v in zip(cols, vals):
                row[c] = v
            for c in range(len(FACTORS)):
                if row[c] is None:
                    bv, bc = 0, -1
                    for v in idx[c]:
                        row[c] = v
                        cnt = sum(1 for (cs, vs) in need if all(row[x] is not None and row[x] == y for x, y in zip(cs, vs)))
                        if cnt > bc:
                            bv, bc = v, cnt
                    row[c] = bv
            cov = sum(1 for (cs, vs) in need if all(row[x] == y for x, y in zip(cs, vs)))
            if cov > bestcov:
                best, bestcov = list(row), cov
        rows.append(best)
        need = {(cs, vs) for (cs, vs) in need if not all(best[x] == y for x, y in zip(cs, vs))}
    return rows


def flags_of(row):
    out = []
    for (name, vals), v in zip(FACTORS, row):
        out += vals[v]
    return out


def digests(src, argv, reps, L, eof):
    acc = loader.compile_source(src, argv)
    if acc.kind != "accepted":
        return acc.kind, None
    try:
        with cbuild.CProg(acc, "gcc") as cp:
            script = cp.op_exhaust(L, reps, do_end=eof, digest=True, no_offsets=True) + cp.op_exhaust(max(L - 1, 1), reps, do_end=eof, digest=True, bytewise=True, no_offsets=True)
            recs, status = cp.run(script, timeout=120)
            if status != "ok":
                return "run:" + status, cp.stderr[-200:]
            return "ok", [r[1]["digests"] for r in recs] + [sum(r[1]["strings"] for r in recs), sum(r[1]["invariant_hits"] for r in recs)]
    except cbuild.BuildError as e:
        return "cbuild_failed", str(e)[:200]


def check_program(item):
    src, argv, label, L, rows = item["src"], item["argv"], item["label"], item["L"], item["rows"]
    res = dict(label=label, status="ok", configs=0, strings=0, problems=[], cbuild_failed=0)
    acc = loader.compile_source(src, argv, codegen=False)
    if acc.kind != "accepted":
        res["status"] = acc.kind
        return res
    if item.get("alphabet"):
        reps = item["alphabet"][:7]
    else:
        try:
            am = AM(acc.dctx)
            reps = sorted(set(c02.pick_reps(am, None, 5)) | set(c02.boundary_reps(am, 5)))[:10]
        except Malformed:
            res["status"] = "malformed"
            return res
        if len(reps) > 6:
            L = min(L, 3)
    eof = "-feof-support" in argv
    needs_ind = "-fyield-support" in argv
    st, base = digests(src, argv, reps, L, eof)
    if st != "ok":
        res["status"] = "baseline:" + st
        return res
    res["strings"] = base[-2]
    for row in rows:
        fl = flags_of(row)
        if any(f in fl for f in item.get("skip_rows_with", ())):
            continue        # this program reads bytes that such a configuration leaves undefined
        st, d = digests(src, argv + fl, reps, L, eof)
        if st == "cbuild_failed":
            res["cbuild_failed"] += 1
            continue
        if st != "ok":
            if st in ("diagnosed", "argerror"):
                # a representation option must not change the verdict either (hooks need a hook mode: that combination is legal)
                res["problems"].append(dict(kind="verdict", what="accepted by default but %s with %s" % (st, " ".join(fl)), flags=fl, input=""))
            elif st.startswith("run:timeout"):
                pass
            else:
                res["problems"].append(dict(kind="run", what="%s under %s: %s" % (st, " ".join(fl), d), flags=fl, input=""))
            continue
        res["configs"] += 1
        res["strings"] += d[-2]
        for which, (a, b) in enumerate(zip(base[:2], d[:2])):
            if a != b:
                k = next(i for i, (x, y) in enumerate(zip(a, b)) if x != y) if len(a) == len(b) else -1
                res["problems"].append(dict(kind="differs", what="trace of input #%d (%s) differs from the default build under %s" % (k, "one chunk" if which == 0 else "byte-wise", " ".join(fl)),
                                            flags=fl, input=nth_string(reps, k).hex() if k >= 0 else ""))
                break
        if len(res["problems"]) >= 2:
            break
    return res


def nth_string(reps, k):
    n = 0
    while True:
        cnt = len(reps) ** n
        if k < cnt:
            out = []
            for _ in range(n):
                out.append(reps[k % len(reps)])
                k //= len(reps)
            return bytes(reversed(out))
        k -= cnt
        n += 1


def run(tier, seed):
    ck = Check("C12", tier, seed, "model_checking",
               rule="program x representation option set (pairwise covering array; thorough: 3-wise) x every string <= L, one chunk and byte-wise; trace hashes compared with the default build; "
                    "distinct = (program, option set) builds compared; states = strings hashed")
    rows = covering(2 if tier == "quick" else 3)
    L = 4 if tier == "quick" else 5
    items = []
    sp = [p for p in strprogs.programs() if p.get("storage_only") is None or p.get("skip_rows_with")]    # (the others read bytes that only some storage modes define)
    base = progs.corpus() + progs.features() + [dict(label="Y#%d" % i, src=s, argv=a, ast=None) for i, (s, a) in enumerate(c02.yield_programs())]
    uni = progs.universe_slice(1, step=13 if tier == "quick" else 3, offset=seed) + progs.universe_slice(2, step=1501 if tier == "quick" else 97, offset=seed)
    for i, p in enumerate(sp + base + uni):
        rs = rows if (tier == "thorough" or i < len(sp) + 12) else rows[(i + seed) % 3::3]
        items.append(dict(label=p["label"], src=p["src"], argv=p["argv"], alphabet=p.get("alphabet"), L=L if p.get("alphabet") is None else L + 1, rows=rs, skip_rows_with=p.get("skip_rows_with", ())))
    stats = dict(option_sets=len(rows), programs_accepted=0, rejected=0, cbuild_failed=0, configs_compared=0)
    for idx, r in pmap(check_program, items, timeout=1200, chunksize=1, stop=ck.enough):
        if "harness_error" in r or "harness_timeout" in r:
            harness_fail("%s on %s" % (r, items[idx]["label"]))
        it = items[idx]
        if r["status"] != "ok":
            stats["rejected"] += 1
            continue
        stats["programs_accepted"] += 1
        stats["cbuild_failed"] += r["cbuild_failed"]
        stats["configs_compared"] += r["configs"]
        ck.add(programs=1, states=r["strings"], transitions=r["strings"], traces_validated_against_impl=r["strings"], evaluations=r["configs"])
        for k in range(r["configs"]):
            ck.note((it["label"], k))
        if idx % 29 == 0:
            ck.sample(dict(program=it["label"], option_sets_compared=r["configs"], strings_hashed=r["strings"], example_option_set=flags_of(it["rows"][0])))
        for p in r["problems"]:
            ck.violation("C12:%s:%s:%s" % (p["kind"], " ".join(p["flags"])[:60], sha(it["src"])[:8]), "%s: %s (input %s)" % (it["label"], p["what"], p["input"]),
                         dict(src=it["src"], argv=it["argv"], flags=p["flags"], input=p["input"], alphabet=it.get("alphabet"), L=it["L"]))
    ck.extra.update(stats)
    ck.exhaustive = True
    ck.assumptions += ["pairs (thorough: triples) of option values are covered, not the full product of the 10 option factors",
                       "absolute offsets are left out of the traces because the direct start pointer cannot report them (C02/C10 check offsets)",
                       "builds whose emitted C does not compile are counted and left to C11"]
    return ck.finish()


def replay(path):
    d = json.load(open(path))
    r = check_program(dict(src=d["src"], argv=d["argv"], label="replay", alphabet=d.get("alphabet"), L=d.get("L", 4), rows=[]))
    # compare just the recorded option set
    acc = loader.compile_source(d["src"], d["argv"], codegen=False)
    reps = (d.get("alphabet") or c02.pick_reps(AM(acc.dctx), None, 5))[:7]
    eof = "-feof-support" in d["argv"]
    a = digests(d["src"], d["argv"], reps, d.get("L", 4), eof)
    b = digests(d["src"], d["argv"] + d["flags"], reps, d.get("L", 4), eof)
    bad = a[0] != b[0] or (a[0] == "ok" and a[1][:2] != b[1][:2])
    print(a[0], b[0])
    print("REPRODUCED" if bad else "not reproduced")
    return 1 if bad else 0
