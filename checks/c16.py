"""C16 - wait never fails and stops at the first restart-semantics match.

For every wait pattern of the menu (and every concatenation of two) in five contexts the reachable states of
(abstract machine x restart automaton built from derivatives of our own pattern AST) are explored to a
fixpoint over the source byte classes (+ end-of-input with EOF support).
Oracle: the machine never returns FAIL and never enters the handler; the statement after the wait (finish F /
hook h) fires exactly when the restart automaton completes (at that byte, or - as the language leaves open -
when the next byte arrives, before consuming it); end() during a wait returns FAIL without entering a handler.
"""
import itertools
import json
from collections import deque
from nv.framework import Check, pmap, sha, harness_fail
from nv import loader, conform, cbuild, bisim, deriv as D, universe as U
from nv.am import AM, UB, Spin, END

L = U.lit
RX = U.RX_ATOMS
PATTERNS = [
    L("a"), L("ab"), ("liti", b"b"), L("aab"), L("abab"), L("abc"), ("re", U.q("a", "+")), ("re", ("seq", (U.q("a", "*"), RX["b"]))),
    ("re", ("seq", (RX["[ab]"], U.q("c", "?")))), ("re", RX["[^a]"]), ("re", RX["."]), ("cat", (L("a"), ("re", U.q("b", "+")))), ("bin", b"ab"),
    ("re", ("alt", (("seq", (RX["a"], RX["b"])), ("seq", (RX["a"], RX["c"]))))), ("re", ("seq", (RX["a"], RX["."], RX["c"]))), L("\r\n"), ("liti", b"ab"),
    ("re", ("seq", (RX["a"], U.q("b", (2,))))), ("re", ("seq", (RX["\\d"], RX["\\d"]))), L("aa"),
    ("re", ("seq", (RX["a"], RX["[^a]"], RX["b"]))), ("re", ("seq", (RX["[ab]"], RX["[^ab]"], RX["c"]))), ("re", ("seq", (RX["a"], U.q("[^ab]", "+"), RX["b"]))),
    ("re", ("seq", (RX["[a-c]"], RX["[^a]"], RX["c"]))), L("aba"), L("abca"), ("liti", b"aAb"), ("re", ("seq", (RX["a"], RX["a"], RX["[ab]"]))),
    # patterns whose automaton returns to its own first state (a starred group in front)
    ("re", ("seq", (U.q(("seq", (RX["a"], RX["b"])), "*"), RX["b"], RX["c"]))), ("re", ("seq", (U.q(("seq", (RX["a"], U.atom("[^b]", U.ALL - set(b"b")))), "*"), RX["b"]))),
    ("re", ("seq", (U.q(("seq", (RX["a"], RX["b"])), "*"), RX["a"], RX["c"]))), ("re", ("seq", (U.q(("alt", (("seq", (RX["a"], RX["b"])), RX["c"])), "*"), RX["b"], RX["b"]))),
]

CONTEXTS = ["plain", "try", "loop", "plain_eof", "try_eof", "pre", "optional"]


def program(p, ctx):
    w = ("wait", p)
    if ctx in ("plain", "plain_eof"):
        st = (w, ("finish", "F"))
    elif ctx in ("try", "try_eof"):
        st = (("try", (w, ("finish", "F")), None, (("finish", "G"),)),)
    elif ctx == "loop":
        st = (("loop", None, (w, ("hook", "h"))),)
    elif ctx == "optional":
        st = (("match", L("c")), ("optional", (w,)), ("finish", "F"))
    elif ctx == "pre":
        st = (("match", L("c")), ("try", (("match", L("x")),), None, (w,)), ("finish", "F"))
    return st


def live(dfa, q, c):
    return not dfa.dead(D.deriv(q, c))


def check_item(item):
    p, ctx, want_c = item[:3]
    prog = program(p, ctx)
    src = U.source(prog)
    argv = (["-feof-support"] if ctx.endswith("_eof") else []) + (list(item[3]) if len(item) > 3 else [])
    res = dict(src=src, argv=argv, status="ok", states=0, trans=0, problem=None, path=None, creplay=0, shapes=set())
    acc = loader.compile_source(src, argv, codegen=want_c)
    if acc.kind != "accepted":
        res["status"] = acc.kind
        res["detail"] = acc.detail
        res["shapes"] = []
        return res
    am = AM(acc.dctx)
    r0 = U.m_core(p)
    reps = U.reps_of(prog)
    dfa = D.Dfa(r0, reps)
    if D.nullable(r0):
        res["status"] = "nullable-pattern"
        res["shapes"] = []
        return res
    loop = ctx == "loop"
    cfg0, code0, _ = am.start()
    # oracle state: ("pre", k) for ctx 'pre' (before the wait is entered), ("wait", q), ("pend",) completion seen, post statement due now
    if ctx in ("pre", "optional"):
        ost0 = ("pre", 0, 0)
    else:
        ost0 = ("wait", r0)
    init = (am.key(cfg0), ost0)
    seen = {init: b""}
    front = deque([init])
    syms = list(reps) + ([END] if am.eof else [])

    def bad(why, path):
        res["problem"] = why
        res["path"] = path.hex()
        res["shapes"] = sorted(map(repr, res["shapes"]))
        return res

    def fired(ev):
        """did the statement after the wait fire in this step, and before or after the consumption point?"""
        pre = post = 0
        seenc = False
        for e in ev:
            if e[0][0] == "C":
                seenc = True
            elif e[0][0] in ("hook", "finish") and (e[0][1] in ("h", "F")):
                if seenc:
                    post += 1
                else:
                    pre += 1
        return pre, post, seenc

    while front:
        key = front.popleft()
        (si, data), ost = key
        path = seen[key]
        res["states"] += 1
        if res["states"] > 6000:
            res["status"] = "capped"
            break
        for c in syms:
            cfg = am.mkcfg(si, dict(data))
            res["trans"] += 1
            p2 = path + (bytes([c]) if c != END else b"")
            try:
                code, ev = bisim.step_sym(am, cfg, c, 0)
            except UB:
                continue
            except Spin as e:
                return bad("machine never returns: %s" % e, p2)
            res["shapes"].add((ost[0], code))
            if any(e[0][0] == "finish" and e[0][1] == "G" for e in ev) and not (ost[0] == "pre"):
                return bad("handler entered during/after a wait (finish G) on input %r%s" % (p2, " + end" if c == END else ""), p2)
            if ost[0] == "pre":
                # context 'pre': "c"; try { "x"; } catch { wait p; } finish F;
                stage, n = ost[1], ost[2]
                if c == END:
                    continue
                if stage == 0:
                    if c == ord("c"):
                        nxt = ("pre", 1, 0)
                    else:
                        if code != "FAIL":
                            return bad("expected FAIL before the wait on %r, got %s" % (p2, code), p2)
                        continue
                elif stage == 1:
                    if ctx == "optional":
                        # "c"; optional { wait p; } finish F;  - a byte that can start the pattern enters the wait, and from then on it is a plain wait;
                        # whether any other byte "enters" the optional (to be skipped by the wait) is not specified: not judged
                        if not live(dfa, r0, c):
                            continue
                    elif c == ord("x"):
                        continue          # try body matched; not the subject of this check
                    q2 = restart(dfa, r0, r0, c)      # mismatch: the offending byte goes to the handler, i.e. into the wait
                    nxt = after_wait(dfa, q2)
                if nxt[0] == "pre":
                    if code != "OK":
                        return bad("expected OK on %r, got %s" % (p2, code), p2)
                    k2 = (am.key(cfg), nxt)
                    if k2 not in seen:
                        seen[k2] = p2
                        front.append(k2)
                    continue
                ost_eff = nxt
                pre, post, seenc = fired(ev)
                r = judge(ost_eff, code, pre, post, seenc, loop, entering=True)
            elif ost[0] == "wait":
                q = ost[1]
                if c == END:
                    if D.nullable(q):
                        if code not in ("FAIL", "FINISH_F", "DONE") and not loop:
                            return bad("end() in an open-ended completed wait returned %s" % code, p2)
                    elif code != "FAIL":
                        return bad("end() during a wait returned %s (expected FAIL: parse incomplete) after %r" % (code, path), p2)
                    continue
                if D.nullable(q) and not live(dfa, q, c):
                    # open-ended pattern ends by lookahead before c: post statement now, before consuming
                    pre, post, seenc = fired(ev)
                    if loop:
                        if pre != 1:
                            return bad("hook after an open-ended wait did not fire when the pattern ended before %r" % p2, p2)
                        q2 = restart(dfa, r0, r0, c)
                        nxt = after_wait(dfa, q2)
                        # the same byte is then processed by the next wait
                        r = judge(nxt, code, 0, post, seenc, loop)
                        ost_eff = nxt
                    else:
                        if code != "FINISH_F" or seenc:
                            return bad("open-ended wait pattern ended before %r but machine returned %s%s" % (p2, code, " after consuming" if seenc else ""), p2)
                        continue
                else:
                    q2 = restart(dfa, r0, q, c)
                    ost_eff = after_wait(dfa, q2)
                    pre, post, seenc = fired(ev)
                    if pre:
                        return bad("statement after the wait fired before the wait completed, at %r" % p2, p2)
                    r = judge(ost_eff, code, pre, post, seenc, loop)
            else:  # ("pend", q_after): completion happened at the previous byte and the post statement has not fired yet
                pre, post, seenc = fired(ev)
                if c == END:
                    if not loop and code not in ("FINISH_F",):
                        return bad("end() right after the wait completed returned %s" % code, p2)
                    continue
                if pre != 1:
                    return bad("statement after the wait never fired (wait completed at %r)" % path, p2)
                if not loop:
                    if code != "FINISH_F":
                        return bad("expected finish F, got %s at %r" % (code, p2), p2)
                    continue
                q2 = restart(dfa, r0, r0, c)
                ost_eff = after_wait(dfa, q2)
                r = judge(ost_eff, code, 0, post, seenc, loop)
            if r is None:
                continue
            if isinstance(r, str):
                return bad(r + " at %r" % p2, p2)
            if r == ("wait", "RESET"):
                r = ("wait", r0)
            k2 = (am.key(cfg), r)
            if k2 not in seen:
                seen[k2] = p2
                front.append(k2)
    res["shapes"] = sorted(map(repr, res["shapes"]))
    if want_c and res["status"] == "ok":
        try:
            with cbuild.CProg(acc, "gcc0") as cp:
                for k, path in list(seen.items())[:60]:
                    prob, n = conform.replay_input(cp, am, path, end=am.eof)
                    res["creplay"] += 1
                    if prob:
                        return bad("C replay: " + prob, path)
                # every string <= 5 in every composition into chunks against the one-chunk run (the one-chunk run itself was tied to the
                # machine above): an abandoned partial match must stay abandoned across a chunk boundary
                xr = [c for c in reps if c < 256][:4]
                recs, status = cp.run(cp.op_exhaust(5, xr, do_end=am.eof), timeout=60)
                if status == "ok":
                    x = recs[0][1]
                    res["creplay"] += x["schedules"]
                    if x["diffs"]:
                        d = x["diff_details"][0]
                        return bad("the wait depends on chunking: input %r split by mask %s gives %s, in one chunk %s" % (d["input"], bin(d["mask"]), str(d["chunked"])[:160], str(d["one_chunk"])[:160]), d["input"])
        except cbuild.BuildError as e:
            res["cbuild_failed"] = 1
    return res


def restart(dfa, r0, q, c):
    d = D.deriv(q, c)
    if not dfa.dead(d):
        return d
    d = D.deriv(r0, c)
    if not dfa.dead(d):
        return d
    return r0


def after_wait(dfa, q2):
    """oracle state after the wait consumed a byte and is now in q2"""
    if D.nullable(q2) and all(dfa.dead(D.deriv(q2, c)) for c in dfa.reps):
        return ("complete",)
    return ("wait", q2)


def judge(ost, code, pre, post, seenc, loop, entering=False):
    """the byte was given to the wait; ost = oracle state afterwards.  -> next oracle state | None (terminal ok) | str (problem)"""
    if code == "FAIL":
        return "wait failed (FAIL)"
    if ost[0] == "complete":
        if loop:
            if code != "OK":
                return "unexpected result %s" % code
            if not seenc:
                return "byte completing the wait was not consumed"
            return _loop_next(post)
        if code == "FINISH_F":
            if not seenc:
                return "finish F without consuming the byte that completes the pattern"
            return None
        if code == "OK" and post == 0 and seenc:
            return ("pend", None)
        return "wait completed but machine returned %s" % code
    # still waiting
    if post:
        return "statement after the wait fired although the pattern has not matched"
    if code != "OK" or not seenc:
        return "byte inside a wait was not consumed (result %s)" % code
    return ost


def _loop_next(post):
    if post == 1:
        return ("wait", "RESET")
    if post == 0:
        return ("pend", None)
    return "hook fired %d times for one completion" % post


PRECEDING = [("re", ("seq", (RX["c"], U.q("[^ab]", "*")))), ("re", U.q("[^ab]", "+")), L("c"), ("re", U.q("c", "+")), ("re", ("seq", (RX["[^ab]"], U.q("c", "?")))),
             ("re", ("alt", (("seq", (RX["c"], RX["c"])), RX["\\d"])))]


def after_items(tier, seed):
    """wait directly after another statement (whose accepting state may name bytes explicitly): joint exploration with the reference
    interpreter, whose wait is the same restart automaton; only patterns that start with a or b, so that the join is unambiguous"""
    out = []
    for i, p in enumerate(PATTERNS):
        r0 = U.m_core(p)
        reps = U.reps_of((("match", p), ("match", L("c")), ("match", ("re", RX["[^ab]"]))))
        first = {c for c in reps if not D.Dfa(r0, reps).dead(D.deriv(r0, c))}
        if not first <= {ord("a"), ord("b")} or D.nullable(r0):
            continue
        for j, pre in enumerate(PRECEDING):
            out.append(("after", (("match", pre), ("wait", p), ("hook", "h"), ("match", L("z")), ("hook", "g")), "AFTER#%d.%d" % (i, j)))
            if (i + j) % 2 == 0:
                out.append(("after", (("loop", None, (("match", pre), ("wait", p), ("hook", "h"))),), "AFTERLOOP#%d.%d" % (i, j)))
        if first == {ord("a")}:
            # a wait as the first statement of an optional whose continuation takes every byte that cannot start the pattern (so no byte is left for which
            # "does it enter the optional" would be open): once entered, the wait restarts on a mismatch and never hands the byte to what follows
            out.append(("after", (("match", L("q")), ("optional", (("wait", p),)), ("match", ("re", RX["[^a]"])), ("hook", "h")), "OPTWAIT#%d" % i))
            out.append(("after", (("loop", None, (("match", L("q")), ("optional", (("wait", p), ("hook", "g"))), ("match", ("re", RX["[^a]"])), ("hook", "h"))),), "OPTWAITLOOP#%d" % i))
    return out


def check_after(item):
    from checks import c01
    _, ast, label = item
    r = c01.check_program(dict(ast=ast, label=label, want_c=True, cap=1500, levels=[[], ["-O3"], ["-O0"]]))
    prob = r["problems"][0] if r["problems"] else None
    return dict(src=r["src"], argv=(prob or {}).get("argv", []), status=r["status"] if r["status"] in ("ok", "internal", "timeout") else "rejected", detail=r.get("detail", ""),
                states=r["states"], trans=r["trans"], creplay=r["creplay"], shapes=sorted(map(repr, r["shapes"])) if not isinstance(r["shapes"], list) else r["shapes"],
                problem=(prob["what"] if prob else None), path=(prob or {}).get("path", ""), after=True)


def dispatch(item):
    if item[0] == "after":
        return check_after(item)
    return check_item(item)


def run(tier, seed):
    ck = Check("C16", tier, seed, "model_checking",
               rule="wait patterns x contexts; product of machine and restart automaton explored to a fixpoint; distinct = (program, (oracle phase, result code)) pairs")
    pats = list(PATTERNS)
    pairs = [("cat", (a, b)) for a, b in itertools.permutations(PATTERNS[:9] if tier == "quick" else PATTERNS[:14], 2)]
    pairs += [("cat", (a, b)) for a in PATTERNS[20:24] for b in PATTERNS[:3]]
    items = []
    for i, p in enumerate(pats + pairs):
        for ctx in CONTEXTS:
            for lv in ([], ["-O3"], ["-O0"]):
                if lv and tier == "quick" and ctx not in ("plain", "loop", "try_eof") and i >= len(pats):
                    continue
                items.append((p, ctx, (len(items) % (7 if tier == "quick" else 3)) == seed % (7 if tier == "quick" else 3), tuple(lv)))
    items += after_items(tier, seed)
    stats = dict(items=len(items), rejected=0, nullable=0, capped=0)
    for idx, r in pmap(dispatch, items, timeout=300, chunksize=4, stop=ck.enough):
        if "harness_error" in r or "harness_timeout" in r:
            harness_fail("%s on %s" % (r, items[idx][2] if items[idx][0] == "after" else U.m_text(items[idx][0])))
        if r["status"] == "nullable-pattern":
            stats["nullable"] += 1
            continue
        if r["status"] not in ("ok", "capped"):
            stats["rejected"] += 1
            if r["status"] in ("internal", "timeout"):
                ck.violation("C16:compiler:" + r.get("detail", "")[:50], "compiler %s on wait program: %s" % (r["status"], r.get("detail")), dict(src=r["src"], argv=r["argv"], kind="compiler"))
            continue
        if r["status"] == "capped":
            stats["capped"] += 1
            ck.cap(items[idx][2] if items[idx][0] == "after" else U.m_text(items[idx][0]))
        ck.add(programs=1, states=r["states"], transitions=r["trans"], traces_validated_against_impl=r["creplay"], evaluations=1)
        for s in r["shapes"]:
            ck.note((idx, s))
        if idx % 211 == 0:
            ck.sample(dict(source=r["src"], product_states=r["states"], shapes=r["shapes"][:6]))
        if r["problem"]:
            ck.violation("C16:%s:%s" % (r["problem"].split(" at ")[0][:50], sha(r["src"])[:10]), "%s | input %s | %s" % (r["problem"], r["path"], r["src"].replace("\n", " ")),
                         dict(src=r["src"], argv=r["argv"], path=r["path"], pat=repr(items[idx][0]), ctx=items[idx][1]) if items[idx][0] != "after" else
                         dict(src=r["src"], argv=r["argv"], path=r["path"], ast=repr(items[idx][1]), ctx="after", label=items[idx][2]))
    ck.extra.update(stats)
    ck.exhaustive = stats["capped"] == 0
    ck.assumptions += ["for an open-ended pattern (one that can still continue after matching) the wait ends when the next byte cannot continue it; end() in that situation may report FAIL or run the following statement",
                       "the statement after the wait may fire with the completing byte or when the next byte arrives (before it is consumed)"]
    return ck.finish()


def replay(path):
    d = json.load(open(path))
    if d.get("ctx") == "after":
        r = check_after(("after", eval(d["ast"]), d.get("label", "replay")))
    else:
        r = check_item((eval(d["pat"]), d["ctx"], True, tuple(a for a in d["argv"] if a.startswith("-O"))))
    print(r["problem"], r["path"])
    print("REPRODUCED" if r["problem"] else "not reproduced")
    return 1 if r["problem"] else 0
