#!/venv/bin/python
"""Regenerate MANIFEST.json from the table below and validate it (and any evidence files) against the schemas."""
import json
import os
import sys
import subprocess

V = os.path.dirname(os.path.dirname(os.path.abspath(__file__)))

CHECKS = {
    "C19": dict(
        category="model_checking",
        technique="exhaustive enumeration of the option space (3^11 x 4 flag assignments, all orderings of <=4 flags, spellings, malformed-option menu) against metadata-derived invariants",
        text="Every absent/on/off assignment of the 11 flags related by implies/exclusive metadata x every -O level is run through the real "
             "load_commandline_flags and checked against invariants computed from the flag metadata alone (implied flags on, no exclusive pair on, "
             "explicit conflict => error, explicit beats level, cumulative levels, no unjustified error); every permutation of every command line "
             "with <=4 (quick <=3) such flags, and of {file,-o,-O,-fA,-fno-B}, must resolve identically; all spellings agree (a value that differs from yes/on/no/off only in letter case is refused or means its lower-case spelling); a finite malformed-option "
             "menu must give RuntimeError. The space is finite and enumerated completely, so this is a decision for the stated bounds. Histories of two command lines loaded in one process must resolve the second exactly as if it were loaded alone.",
        design_ref="DESIGN.md section 4, C19",
        note="Trusted: ProgramFlag metadata (implies/exclusive_with/defaults) and _OPTIMIZE_LEVELS as the specification of the relations; command lines longer than 4 permuted flags and option *values* beyond the malformed menu are not explored."),
}

CHECKS["C06"] = dict(
    category="model_checking",
    technique="exhaustive one-step conformance: every (state index, symbol 0..255/end, data context) forced into the C struct and compared with an abstract machine over the compiler's DFA objects",
    text="For every program x option set, every state index x every byte value (and end-of-input with EOF support) x a menu of data contexts "
         "is forced into the generated C state struct, one symbol is fed (alone and as the head of a 2-byte chunk), and result code, bytes consumed, "
         "hook calls with the outputs visible to them, next state and the output image are compared with the abstract machine's step on the "
         "compiler's own DFState/DFTransition/Action objects; start() is compared too. Per program the (state, symbol) space is covered completely, "
         "so any emitted transition that differs from the machine is found. This check is also what binds the AM (the model of the other checks) to the code.",
    design_ref="DESIGN.md section 4, C06 and section 3.4",
    note="Trusted: gcc 12 -O0 on x86-64 as the C semantics (plain char signed); the AM's step rules (DESIGN 3.4); data contexts are a finite menu of boundary values per variable, "
         "not all values; valuations with C undefined behaviour are skipped; programs are corpus + feature programs + a slice of the bounded universe.")

CHECKS["C07"] = dict(
    category="model_checking",
    technique="explicit-state product search: compiled regex machine x Brzozowski-derivative automaton built from our own regex AST, to a fixpoint, for every regex AST up to a size bound",
    text="Every regex AST up to the size bound over a menu of atoms (literals, escapes, classes, inverted sets, ranges, wildcard; text and binary spelling) with "
         "sequence, alternation, groups, ? * + {n} {n,m} {n,} is printed, compiled, and the reachable states of (abstract machine of `parser { /re/; }`) x (derivative "
         "automaton) are explored over the low/high byte of every source class; accepting <=> nullable, FAIL exactly at the first byte whose derivative is dead, "
         "DONE only when nothing longer exists, and end() of the twin `/re/; end;` returns DONE <=> nullable (so wildcards/inverted sets never match end-of-input). "
         "Language equality is decided exactly per regex (fixpoint), not by sampling strings; a slice of the BFS witness paths is replayed on the C.",
    design_ref="DESIGN.md section 4, C07",
    note="Trusted: the derivative construction (nv/deriv.py) and our reading of the class escapes; AM bound to the C by C06; regex size bound and atom menu (small scope); repeat counts <= 3.")
CHECKS["C05"] = dict(
    category="model_checking",
    technique="explicit-state bisimulation of the -O0 machine and each optimised machine on observable event streams with a one-position lead buffer, plus C replays of the BFS witnesses",
    text="For every program and every option set (levels, each optimisation flag alone / removed, all subsets in the thorough tier, thresholds) the unoptimised and the optimised "
         "abstract machines are explored jointly to a fixpoint (or a reported state cap): hook calls with visible outputs, appends, yields, breaks, finishes, consumption points, "
         "result codes and final outputs must agree, allowing exactly what the property allows: an action between two consumed bytes may fire one step earlier/later (hook argument "
         "may then differ), DONE may be postponed to the following call, events pending at a FAIL may or may not have run. BFS witness inputs are replayed on C binaries built at -O0, -O2, -O3.",
    design_ref="DESIGN.md section 4, C05 and nv/bisim.py",
    note="Trusted: the AM (bound to C by C06); the slack rules in nv/bisim.py; byte representatives from the union partition of both machines; capped pairs are reported as capped.")

CHECKS["C08"] = dict(
    category="model_checking",
    technique="explicit-state product search: compiled case machine x parallel product of per-pattern derivative automata, to a fixpoint, for every clause-pattern set up to 4 clauses",
    text="All sets of 2..4 clauses over a 14-pattern menu (prefix-sharing literals, case-insensitive literals, open and closed regexes, several patterns per clause), "
         "x body variants (finish code per clause, else alone, else body starting with a match, empty body, else combined with a pattern) x greedy/priority assignments x the lexer shape "
         "(greedy case in a yielding loop) are compiled; for each accepted set the joint state space of the abstract machine and the parallel pattern automata is explored completely. "
         "The finish/yield code observed identifies the clause that ran: it must be the clause whose pattern equals the consumed bytes (highest priority for greedy, maximal munch), "
         "else/FAIL exactly when no pattern is live, with the else body starting at the offending byte. Clause bodies that only assign (ties decided by priority are accepted for them) are decided jointly with the reference interpreter.",
    design_ref="DESIGN.md section 4, C08",
    note="Trusted: derivative automata; AM (bound by C06); clause bodies restricted to finish/yield/one literal so that the executed clause is observable; pattern menu and <=4 clauses (small scope).")
CHECKS["C16"] = dict(
    category="model_checking",
    technique="explicit-state product search: compiled machine x restart automaton derived from our own pattern AST, to a fixpoint, for every wait pattern x context",
    text="Every wait pattern of a 20-pattern menu and every concatenation of two, in six contexts (plain, inside try/catch with a handler that finishes with a tell-tale code, in a loop with a hook, "
         "as a catch handler entered at the offending byte, and the first two with EOF support) is compiled; the joint state space of the abstract machine and the restart automaton "
         "(delta(q,c) if live, else delta(q0,c) if live, else q0) is explored completely. FAIL and the handler are never reachable, the statement after the wait fires exactly when the restart "
         "automaton completes, end() during a wait reports FAIL without entering a handler. In addition every `statement; wait p` program over a menu of preceding statements (whose accepting states name bytes explicitly) is explored jointly with the reference interpreter, and the C of every wait program is run on every string <= 5 in every composition into chunks.",
    design_ref="DESIGN.md section 4, C16",
    note="Trusted: derivative automata and the restart construction; AM (bound by C06); patterns the compiler rejects (open-ended ones followed by a strict action) are counted, not judged.")

CHECKS["C01"] = dict(
    category="model_checking",
    technique="explicit-state product search: reference interpreter of the procedural reading (our own AST) x abstract machine over the compiled DFA, with a lead buffer for the permitted one-position slack; witness inputs replayed on the C",
    text="Every program of a bounded universe (all leaf-statement sequences of length <= 2 over the full match/action menus, one block - optional, loop+break, foreach, try/catch with every reason list, case, if - "
         "with bodies <= 2 and <= 1 statement before/after; one block nested in another for every pair of block kinds, 20 196 programs, a rotating tenth in the quick tier) is printed from our own AST; each accepted program is explored jointly with the reference interpreter REF to a fixpoint over the source byte classes: "
         "hook calls with the outputs visible to them, appends, self-referential assignments, yields, finishes, result codes and final outputs must be performed exactly when and as often as the procedural reading "
         "performs them, modulo exactly the stated slack. This visits every reachable (machine state, data, program point) triple of each program, i.e. decides the property for all inputs of that program.",
    design_ref="DESIGN.md sections 3.5 and 4 (C01), nv/ref.py, nv/refcheck.py",
    note="Trusted: REF as the reading of the language reference (spec-open points listed in the evidence assumptions accept a set of behaviours); AM bound to C by C06 plus C replays of the BFS witnesses; "
         "small scope (blocks nested at most two deep with one-statement inner bodies, menus, 8-bit/short-string data); one open known finding (KF13) is matched structurally; optionals whose first statement does not match input (an error by the reference) are compiled but not judged.")
CHECKS["C17"] = dict(
    category="model_checking",
    technique="the C01 product search (REF x abstract machine) with end-of-input explored as a symbol from every reachable product state, on programs compiled with EOF support",
    text="The bounded universe compiled with -feof-support plus an EOF-specific universe (`end` as a statement, in concatenations, in case clauses alone and combined, as optional lookahead, in catch handlers, "
         "in wait patterns, in loops) is explored jointly with REF; from every reachable product state the end-of-input step is taken on both sides: end() must return DONE iff the program had completed or an `end` "
         "pattern completes it there (after running the following actions; a finish gives its code), FAIL otherwise; `end` never matches a byte; wildcards / inverted sets never match end-of-input (also C07).",
    design_ref="DESIGN.md section 4, C17",
    note="Trusted: as C01. Programs whose emitted end() does not compile are counted and left to C11.")
CHECKS["C09"] = dict(
    category="model_checking",
    technique="exact language-theoretic decision on derivative automata for statement pairs and case clause sets, plus exhaustive search for ambiguity witnesses over all reachable REF x machine states of accepted programs",
    text="(a) all 256 x 6 pairs `A; B`, `optional {A} B`, `A; optional {B} \"c\"`, loop shapes over a 16-match menu (including two-byte patterns that start with an inverted set / wildcard) and (b) all case clause sets of C08 are decided exactly: is there an accepting configuration of A and a byte "
         "that both continues A and starts B; are non-greedy clause languages pairwise disjoint and prefix-free; does every greedy tie have a unique top priority. (c) every accepted universe program is explored "
         "with REF, which raises a witness at any reachable decision point where one byte has two continuations. Accepted-and-ambiguous is a violation with its witness input. Loops whose body can still continue on a byte that starts the next iteration, loops left by a conditional break and duplicate patterns across clauses, and greedy ties between an action-only clause and one with a consuming body are part of the pair / case menus.",
    design_ref="DESIGN.md section 4, C09",
    note="Trusted: derivative automata; REF's notion of 'starts what follows' (bytes merely skipped by wait / taken only by else do not count); unambiguous-but-rejected is allowed.")

CHECKS["C02"] = dict(
    category="model_checking",
    technique="stateless exhaustive exploration of chunk schedules on the real generated C: every string <= L over the byte-class representatives x every composition into chunks, by a driver compiled with the parser",
    text="Per accepted program (corpus, feature programs, yield programs, universe slice; direct and indirect start pointer; end() when EOF support is on) a C driver enumerates every string up to length L "
         "over <= 5 representatives and all 2^(n-1) compositions of it into chunks, re-invoking feed after each yield at the returned position, each chunk in its own heap buffer, and compares the chunk-independent trace "
         "(hooks with argument, absolute offset and visible outputs; yield codes with offsets; terminal code with bytes consumed; end() result; final outputs) with the one-chunk run; longer inputs "
         "(shortest input reaching every machine state) are cut at every single point and byte-wise. Quick: ~2*10^7 schedules.",
    design_ref="DESIGN.md section 4, C02",
    note="Trusted: gcc -O1 as the C; alphabet = representatives of the program's byte classes; strings longer than L only as witnesses. Parsers that never return are counted and left to C04.")
CHECKS["C10"] = dict(
    category="model_checking",
    technique="exhaustive enumeration of call histories (strings x compositions x post-terminal call suffixes) on the real C with the abstract machine as protocol monitor; strict-done relation by bisimulation; in-C protocol invariants over all chunk schedules",
    text="Per program and variant (indirect/direct pointer, strict-done, EOF, -O3, yields) every string <= L in every composition, continued after its last call by every sequence of <= 2 further calls from "
         "{feed 1 byte, feed 2 bytes, end}, is executed on the C; each call's code and pointer position must equal the machine's, OK only after the whole chunk, FAIL absorbing for feed and end, DONE/finish with the pointer on the "
         "last byte read, yields at the resume position. The strict-done machine must equal the non-strict one except that DONE moves to the following call. The exhaustive chunk explorer (C02's engine) additionally "
         "checks OK-without-consuming, pointer-outside-chunk and non-absorbing FAIL on every schedule. Fail and finish positions are also decided by the reference interpreter on the EOF universe and the hand-written programs (the first offending byte is a statement about the program, not about the machine).",
    design_ref="DESIGN.md section 4, C10",
    note="Trusted: AM as monitor (bound by C06/C01); calls after DONE/finish are unspecified and only compared with the machine; empty chunks are exercised under C12's zero-length option.")

CHECKS["C03"] = dict(
    category="model_checking",
    technique="stateless exhaustive exploration of all operation sequences (inputs) <= L on the real C built with ASan+UBSan+LSan, under every string-storage configuration, with in-driver invariants after every call",
    text="Buffer-heavy 'operation interpreter' programs (each input byte selects an append / char-append / constant assignment / delete / length / in- and out-of-range index operation on str[2], unterminated str[2], "
         "raw{uint16_t}, str[3] with a default, str[4], with sentinel outputs after every buffer) plus corpus and feature programs are built with clang AddressSanitizer, UndefinedBehaviorSanitizer and LeakSanitizer "
         "under every storage configuration {in-struct, heap, heap-on-demand} x {delete frees} x {char, uint8_t} x {safe, unsafe indexing (in-range programs)} x {-O1,-O2,-O3}; every string <= L over the selector alphabet "
         "is executed in one chunk and byte-wise (exact-size heap chunks, heap state struct), then the parser's free function runs. After every call: counter <= capacity, terminator present, buffer non-NULL when "
         "length > 0, sentinels intact, pointers NULL after free. Constants and defaults that do not fit must be rejected at compile time. Builds are unoptimised (-O0) so that every load and store of the generated text is instrumented; chunks live in exactly sized heap blocks and, under zero-length support, an empty chunk is fed at the end of each.",
    design_ref="DESIGN.md section 4, C03",
    note="Trusted: clang 14 sanitizers as monitors; reads of never-written bytes are avoided by construction (no MSan); which handler an overflow reaches is C01/C06's subject; counter-width wrap-around of 256-byte strings is caught by C06's feat-bigstr, not here.")
CHECKS["C12"] = dict(
    category="model_checking",
    technique="differential exhaustive exploration of the real C: every string <= L, one chunk and byte-wise, trace hashes compared between the default build and a pairwise (thorough: 3-wise) covering array of representation option sets",
    text="Each program (buffer-operation interpreters, corpus, feature, yield and universe programs) is built under every row of a covering array over ten representation factors (string storage x4, char/uint8_t, hook placement, "
         "user pointer, packed enums, pragma once, C++ guard, direct/indirect pointer, zero-length support, range-collapse threshold x4); a driver compiled with the parser hashes, for every string <= L over the program's alphabet, "
         "the representation-independent trace (result codes, hook sequence with arguments and the outputs visible to each hook, yields, final contents and lengths); the hash lists must equal the default build's.",
    design_ref="DESIGN.md section 4, C12",
    note="Trusted: gcc -O1; pairs/triples of option values rather than the full product; offsets are excluded (direct mode cannot report them).")

CHECKS["C04"] = dict(
    category="model_checking",
    technique="exhaustive search for divergence in the non-consuming move graph: every reachable (state, data) configuration and every state x forced data context x byte class, single step with exact configuration-repeat detection; divergences confirmed on the C",
    text="For every accepted program of the bounded universe, the corpus and a cycle-seeking universe (loops whose bodies can complete without consuming: optional, try with empty / action / yield / delete / wait handlers for every "
         "reason list, if with and without else, case-else, overflow handlers that re-enter the appending construct, nested loops with breaks) the abstract machine is stepped from every reachable configuration and from every "
         "state under forced data contexts on every byte class and end-of-input; a repeated (state, data) inside one step of the deterministic machine, or yields that never consume, prove non-termination and are then "
         "confirmed on the C binary under a wall-clock limit (or 40 yields without progress). The converse (a non-consuming control cycle of the procedural reading in an accepted program) is checked with REF. The C of feature, corpus and cycle-seeking programs is also run on all short inputs under a wall-clock limit and a yield counter (feed: > 4n+8 yields in a chunk of n bytes; end: > 12 in a row), and a program rejected as possibly non-consuming must be rejected at every optimisation level.",
    design_ref="DESIGN.md section 4, C04",
    note="Trusted: AM (bound by C06); boundedness per call is argued from determinism + no repeat; forced contexts are a menu. One open known finding (KF9: cycles through action override targets) is matched on the machine-level cycle.")

CHECKS["C13"] = dict(
    category="model_checking",
    technique="each macro program emitted twice from one AST (with macros / inlined by our own substitution); verdict equality and exhaustive bisimulation without slack of the two compiled machines; exhaustive kind x kind error menu",
    text="Macro shapes covering every argument kind (out, match, expr, hook, loop, finishcode, yieldcode, macro), arguments used several times and inside concatenations / conditions / appends, nested calls passing every "
         "kind through, callee argument names shadowing the caller's, break targets passed in and captured from the call site, labelled loops inside a macro body expanded several times, zero-argument macros called repeatedly, x menus of match and expression arguments x surrounding "
         "statements are printed both with macros and hand-inlined; verdicts must agree and for accepted pairs the joint state space of both machines is explored completely with no slack. All 8 parameter kinds x 10 wrong argument "
         "kinds, wrong arities, recursion, undefined callee and duplicate parameters must be diagnosed errors.",
    design_ref="DESIGN.md section 4, C13",
    note="Trusted: our substitution as the meaning of 'textual expansion'; AM; names the reference leaves undefined are not generated; shapes up to nesting depth 2.")

CHECKS["C18"] = dict(
    category="exploration",
    technique="bounded-exhaustive single-site mutant enumeration (declaration/default and assignment matrices, all printable escapes in every literal context, structural misuse menu, corpus identifier swaps) x option sets, outcome classification",
    text="Every cell of the (output type incl. odd widths and sizes) x (default / assigned / appended atom of every kind) matrices, every escape \\c for every printable c in match, case-insensitive match, assignment, default, "
         "regex, regex-set and char-constant position, malformed \\x / binary literals, ~60 regex shapes, ~110 structural misuse programs (statements in the wrong place, empty and action-only bodies, duplicates, missing flags, "
         "degenerate repeats, deep nesting, end patterns in every position), the nested-block universe of C01 and identifier-for-identifier swaps in every corpus program are compiled under up to nine option sets; literals of more than a thousand characters go through the real command line (default recursion limit); the outcome must be code, a syntax error or a diagnosed error whose message renders - "
         "never another exception or a timeout. Exploration rather than model checking: the space is a finite menu enumerated completely, but the property quantifies over all grammatical sources.",
    design_ref="DESIGN.md section 4, C18",
    note="Trusted: nothing beyond the classification of exceptions; single-site mutants from finite menus only.")
CHECKS["C20"] = dict(
    category="model_checking",
    technique="exhaustive enumeration of compilation histories (every polluter, every second ordered pair; polluters accepted / rejected in every phase, also from inside a macro expansion, and the program itself under flipped options), "
              "of bounded identity-hash layout deviations, of child interpreters (hash seeds covering both orders of every enum-member pair; interpreters whose first compilation is something else); "
              "recompilations compared by verdict, C text, bisimulation without slack and C runs on every string <= 4",
    text="Per program, child interpreters compile it fresh, again, after every polluter sequence of length <= 2, and under controlled identity-hash layouts (__hash__ of nmfu's identity-hashed classes replaced by "
         "explorer-chosen permutations of creation order, restarting with every compilation). Every recompilation must give the same verdict; unless the emitted C is textually the same program, the two machines must be "
         "bisimilar without slack and both C programs must produce the same trace digests on every string <= 4. Across children (PYTHONHASHSEED values chosen so that both iteration orders of every pair of name-hashed enum "
         "members occur; children that compile another program, or the same program under flipped options, first) verdict, behaviour table and C trace digests must be identical. Programs include name-shadowing macros, "
         "sources with more than one grammatical reading, byte classes with one collapsible run and several isolated members, and condition points whose first set is computed from a set of identity-hashed states; "
         "the C-level digest also covers every string <= 2 over all 256 byte values, and a C run that does not complete is a reported difference.",
    design_ref="DESIGN.md sections 4 (C20) and 8.2",
    note="Trusted: AM; histories accumulate inside one child; identity-hash layouts and hash seeds are finite menus (stated); identical C text (comments aside) is taken as identical behaviour.")

CHECKS["C11"] = dict(
    category="exploration",
    technique="t-wise exhaustive covering array over 15 code-generation factors x programs covering every output type / action / node kind; each emitted pair compiled by gcc (c99, c11), clang and g++ (header) with -Wall -Werror, plus a declared-API check",
    text="Corpus, feature (including breaks / finishes / overflowing appends three action-only `if` levels deep), buffer-operation, yield, EOF-universe, hand-written and universe programs x every row of a covering array (all pairs; thorough: all triples) over level, EOF, yield, indirect pointer, strict done, zero-length, "
         "storage x5, u8, hook placement, user pointer, packed enums, pragma once, C++ guard, unsafe indexing, range collapsing x4: header and source must compile without warnings under gcc -std=c99 / -std=c11 and clang "
         "(-Wall -Werror -Wno-unused-label), the header alone (included twice) must be valid C and C++, and exactly the documented API must be declared (start, feed, end iff EOF, free iff dynamic memory, hooks as prototypes xor members, "
         "one enumerator per result code, pointer type of feed). Three programs are also compiled under a menu of 12 input file names (leading digit, dashes, dots, blanks, non-ASCII, a C keyword) from which the output name is derived. Exploration: t-wise, not the full option product.",
    design_ref="DESIGN.md section 4, C11",
    note="Trusted: gcc 12 / clang 14 / g++ 12 as the judges of validity.")
CHECKS["C14"] = dict(
    category="exploration",
    technique="bounded-exhaustive expression trees (every operator x every atom pair; every operator pair in both nestings, printed with minimal parentheses) x contexts x boundary valuations, evaluated by the real generated C and by an independent typed big-integer C evaluator",
    text="~10^4 distinct well-typed expressions over all 19 operators and atoms of every width/signedness, bool, string length, in/out-of-range indexed bytes (including indices that go negative only through the integer promotion of narrow unsigned operands) and $last, each used in assignments to every int width/sign and bool, "
         "character appends, action-only ifs and ifs with consuming bodies (condition points), are packed ~150 per generated parser, the variables are set directly in the state struct to each of a menu of boundary valuations, and every "
         "stored result / branch taken is compared with nv/cexpr.py (integer promotion, usual arithmetic conversions, truncation, wrap, narrowing); valuations where C is undefined are skipped, trapping divisions are isolated.",
    design_ref="DESIGN.md section 4, C14",
    note="Trusted: nv/cexpr.py as C arithmetic on x86-64/gcc; depth <= 2; boundary valuations rather than all values.")
CHECKS["C15"] = dict(
    category="exploration",
    technique="exhaustive over single bytes: 256 values x every legal spelling x every literal context, all 256 candidate bytes offered at the literal's position on the compiled machine; store/value contexts through an ASan build; all ordered pairs over an adversarial byte set",
    text="For every byte 0..255 and every spelling (raw, \\xHH either case, named escape, hex pair, regex literal / escaped metacharacter / class escape / set member / range endpoint, binary-regex byte / set / range / inverted set) "
         "in string, case-insensitive, binary-string, text-regex and binary-regex matches the compiled machine must accept exactly the spelled byte (either case of ASCII letters for the insensitive form) among all 256 candidates; "
         "string assignments, string and binary defaults, char constants (every escape incl. \\0 and \\\\) and dec/0x/0b signed integer literals incl. decimals with leading zeros (statement, math, default) are observed through the C; programs with raw TAB / VT / FF / CR LF characters inside and outside literals and all feature programs are compiled through the real command line and must behave like the in-process pipeline's output on every string <= 4; all ordered pairs over 24 adversarial bytes as two-byte "
         "matches, assignments and defaults (fail at exactly the first differing byte, stored bytes and length).",
    design_ref="DESIGN.md section 4, C15",
    note="Trusted: AM for the match contexts (bound by C06); raw non-ASCII source characters are not used; multi-byte literals only as adversarial pairs.")

NOT_YET = {
}

ALL = ["C%02d" % i for i in range(1, 21)]


def main():
    checks = []
    for pid in ALL:
        if pid not in CHECKS:
            continue
        c = CHECKS[pid]
        checks.append(dict(
            property_id=pid,
            quick_cmd="/venv/bin/python run.py %s --tier quick" % pid,
            thorough_cmd="/venv/bin/python run.py %s --tier thorough" % pid,
            evidence_file="evidence/%s.json" % pid,
            replay_cmd_template="/venv/bin/python run.py %s --replay {path}" % pid,
            engine="nv",
            level_claimed=dict(category=c["category"], text=c["text"], design_ref=c["design_ref"]),
            level_note=c["note"],
            technique=c["technique"],
        ))
    na = [dict(property_id=p, reason=NOT_YET.get(p, "check not built yet in this round; planned as described in DESIGN.md section 4 (no claim is made until it exists)"))
          for p in ALL if p not in CHECKS]
    m = dict(
        version=1,
        setup_cmd="/venv/bin/python tools/setup.py",
        hooks=dict(guard="NMFU_VERIF", enable="no source hooks are needed: checks import /repo/nmfu.py directly (env NMFU_VERIF=1 is exported but unused by the source)",
                   baseline_off_cmd="cd /repo && env -u NMFU_VERIF /venv/bin/python -m pytest -ra -q -p no:cacheprovider --timeout=900 --continue-on-collection-errors",
                   source_commits=[], add_only=True),
        engines=[dict(name="nv", path="nv/", serves_properties=sorted(CHECKS),
                      kind_free_text="hand-written explicit-state / bounded-exhaustive explorer in Python over the real compiler objects, plus generated C drivers for the emitted parsers")],
        checks=checks,
        notes="All checks run with /venv/bin/python (has lark and the repo's deps) and import /repo/nmfu.py from the working tree on every run. "
              "known_findings.json lists fixed and open findings; see DESIGN.md.",
        not_applicable=na,
    )
    with open(os.path.join(V, "MANIFEST.json"), "w") as f:
        json.dump(m, f, indent=1)
    # validate with the tooling venv's jsonschema when available
    code = r'''
import json, sys, glob, jsonschema
m = json.load(open("%s/MANIFEST.json"))
jsonschema.validate(m, json.load(open("/root/.vp/MANIFEST.schema.json")))
es = json.load(open("/root/.vp/EVIDENCE.schema.json"))
for f in sorted(glob.glob("%s/evidence/*.json")):
    jsonschema.validate(json.load(open(f)), es)
    print("evidence ok", f)
print("manifest ok: %%d checks, %%d not_applicable" %% (len(m["checks"]), len(m.get("not_applicable", []))))
''' % (V, V)
    r = subprocess.run(["python3-vt", "-c", code])
    sys.exit(r.returncode)


if __name__ == "__main__":
    main()
