#!/venv/bin/python
"""addfinding.py fixed <prop> <commit> <what>   |   addfinding.py open <prop> <sig> <what>"""
import json, sys, os
p = os.path.join(os.path.dirname(os.path.dirname(os.path.abspath(__file__))), "known_findings.json")
d = json.load(open(p))
if sys.argv[1] == "fixed":
    _, _, prop, commit, what = sys.argv
    d["findings"].append({"property": prop, "status": "fixed", "commit": commit, "what": what, "line": "fixed: property=%s %s %s" % (prop, commit, what)})
else:
    _, _, prop, sig, what = sys.argv
    d["findings"].append({"property": prop, "status": "open", "sig": sig, "what": what})
json.dump(d, open(p, "w"), indent=1)
