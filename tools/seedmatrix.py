#!/venv/bin/python
"""Run every seeded change against its own property's check (quick tier) and record the outcome in seeded/RESULTS.json."""
import json, os, subprocess, sys, glob
V = os.path.dirname(os.path.dirname(os.path.abspath(__file__)))
res = {}
out = os.path.join(V, "seeded", "RESULTS.json")
if os.path.exists(out):
    res = json.load(open(out))
only = sys.argv[1:]
for d in sorted(glob.glob(os.path.join(V, "seeded", "C*_*"))):
    name = os.path.basename(d)
    if only and name not in only:
        continue
    prop = name.split("_")[0]
    patch = os.path.join(d, "patch.diff")
    if os.path.exists(os.path.join(d, "patch_rebased_on_fixed_tree.diff")):
        patch = os.path.join(d, "patch_rebased_on_fixed_tree.diff")
    chk = subprocess.run(["git", "-C", "/repo", "apply", "--check", patch], capture_output=True, text=True)
    if chk.returncode:
        res[name] = dict(applies=False, note="no longer applies to the repaired tree: " + chk.stderr.strip()[:120])
        continue
    checks = [prop] + [c for c in os.environ.get("EXTRA", "").split() if c]
    p = subprocess.run([os.path.join(V, "tools/mut.py"), patch] + checks, capture_output=True, text=True)
    r = dict(applies=True)
    for line in p.stdout.splitlines():
        if " exit=" in line:
            c = line.split()[0]
            r[c] = dict(detected="exit=1" in line, line=line[:240])
    res[name] = r
    json.dump(res, open(out, "w"), indent=1, sort_keys=True)
    print(name, {k: v.get("detected") for k, v in r.items() if isinstance(v, dict)}, flush=True)
json.dump(res, open(out, "w"), indent=1, sort_keys=True)

# ---- human-readable summary
lines = ["# Seeded property-breaking changes", "",
         "Written by independent sub-agents (property text + scratch worktree only); each passes the 138 repository tests (two marked invalid do so only under some hash seeds) and was re-confirmed with",
         "`tools/seedcheck.py` (demo exits 0 on the clean tree, non-zero with the patch).  `detected` = the owning property's quick check exits 1 on the",
         "repaired tree + patch (run through `tools/mut.py`, i.e. a scratch copy via NMFU_REPO).", "",
         "| seed | property check | detected | what it needs / note |", "|---|---|---|---|"]
for name in sorted(res):
    r = res[name]
    meta = {}
    try:
        meta = json.load(open(os.path.join(V, "seeded", name, "meta.json")))
    except Exception:
        pass
    needs = (meta.get("needs") or "")[:160].replace("|", "/").replace("\n", " ")
    if not r.get("applies"):
        lines.append("| %s | %s | n/a | %s %s |" % (name, name.split("_")[0], r.get("note", "")[:160], ("**[superseded: %s]**" % meta["superseded"][:160]) if meta.get("superseded") else ""))
        continue
    prop = name.split("_")[0]
    det = r.get(prop, {}).get("detected")
    others = [k for k, v in r.items() if isinstance(v, dict) and k != prop and v.get("detected")]
    note = needs + ((" (also caught by " + ", ".join(others) + ")") if others else "")
    for key in ("invalid", "superseded", "rebased"):
        if meta.get(key):
            note += " **[%s: %s]**" % (key, meta[key][:140].replace("|", "/"))
    if det is False:
        extra = (meta.get("our_checks") or {})
        also = [k for k, v in extra.items() if "exit=1" in v]
        note += " **missed by %s**" % prop + ((" - caught by " + ", ".join(also)) if also else "")
    lines.append("| %s | %s | %s | %s |" % (name, prop, "yes" if det else "NO", note))
open(os.path.join(V, "seeded", "README.md"), "w").write("\n".join(lines) + "\n")
