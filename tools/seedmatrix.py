#!/venv/bin/python
"""Run every seeded change against its own property's check (quick tier) and record the outcome in seeded/RESULTS.json."""
import json, os, subprocess, sys, glob
V = os.path.dirname(os.path.dirname(os.path.abspath(__file__)))
res = {}
out = os.path.join(V, "seeded", "RESULTS.json")
if os.path.exists(out):
    res = json.load(open(out))
only = sys.argv[1:]
for d in sorted(glob.glob(os.path.join(V, "seeded", "C*_*"))):
    name = os.path.basename(d)
    if only and name not in only:
        continue
    prop = name.split("_")[0]
    patch = os.path.join(d, "patch.diff")
    if os.path.exists(os.path.join(d, "patch_rebased_on_fixed_tree.diff")):
        patch = os.path.join(d, "patch_rebased_on_fixed_tree.diff")
    chk = subprocess.run(["git", "-C", "/repo", "apply", "--check", patch], capture_output=True, text=True)
    if chk.returncode:
        res[name] = dict(applies=False, note="no longer applies to the repaired tree: " + chk.stderr.strip()[:120])
        continue
    checks = [prop] + [c for c in os.environ.get("EXTRA", "").split() if c]
    p = subprocess.run([os.path.join(V, "tools/mut.py"), patch] + checks, capture_output=True, text=True)
    r = dict(applies=True)
    for line in p.stdout.splitlines():
        if " exit=" in line:
            c = line.split()[0]
            r[c] = dict(detected="exit=1" in line, line=line[:240])
    res[name] = r
    json.dump(res, open(out, "w"), indent=1, sort_keys=True)
    print(name, {k: v.get("detected") for k, v in r.items() if isinstance(v, dict)}, flush=True)
json.dump(res, open(out, "w"), indent=1, sort_keys=True)
