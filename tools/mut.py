#!/venv/bin/python
"""Apply a patch to /repo, run the named checks (quick tier), undo the patch.  Usage: mut.py <patch.diff> C06 C01 ...
Prints one line per check: exit code and number of VIOLATION lines.  Never leaves /repo modified."""
import subprocess
import sys
import os
import time

V = os.path.dirname(os.path.dirname(os.path.abspath(__file__)))


def main():
    patch = os.path.abspath(sys.argv[1])
    checks = sys.argv[2:]
    st = subprocess.run(["git", "-C", "/repo", "status", "--porcelain", "--untracked-files=no"], capture_output=True, text=True).stdout.strip()
    if st:
        print("refusing: /repo has local modifications:\n" + st)
        return 2
    r = subprocess.run(["git", "-C", "/repo", "apply", patch], capture_output=True, text=True)
    if r.returncode:
        print("patch does not apply:", r.stderr)
        return 2
    results = {}
    try:
        for c in checks:
            t = time.time()
            env = dict(os.environ)
            env["NV_EVID_DIR"] = "/tmp/nv_mut_evidence"
            env["NV_REPLAY_DIR"] = "/tmp/nv_mut_replays"
            p = subprocess.run([os.path.join(V, "run.py"), c], capture_output=True, text=True, cwd=V, env=env)
            nv = sum(1 for l in p.stdout.splitlines() if l.startswith("VIOLATION"))
            first = next((l for l in p.stdout.splitlines() if l.startswith("  -- ")), "")
            results[c] = (p.returncode, nv)
            print("%s exit=%d violations=%d %.0fs %s" % (c, p.returncode, nv, time.time() - t, first[:300]))
            if p.returncode not in (0, 1):
                print(p.stderr[-1500:])
    finally:
        subprocess.run(["git", "-C", "/repo", "checkout", "--", "."])
    return 0


if __name__ == "__main__":
    sys.exit(main())
