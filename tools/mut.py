#!/venv/bin/python
"""Apply a patch to /repo, run the named checks (quick tier), undo the patch.  Usage: mut.py <patch.diff> C06 C01 ...
Prints one line per check: exit code and number of VIOLATION lines.  Never leaves /repo modified."""
import subprocess
import sys
import os
import time

V = os.path.dirname(os.path.dirname(os.path.abspath(__file__)))


def main():
    """runs the checks against a scratch copy of /repo's working tree with the patch applied (NMFU_REPO), so /repo itself is never touched"""
    import tempfile, shutil
    patch = os.path.abspath(sys.argv[1])
    checks = sys.argv[2:]
    tmp = tempfile.mkdtemp(prefix="nvmut", dir="/tmp")
    try:
        subprocess.run("cd /repo && git ls-files -z | xargs -0 cp --parents -t %s" % tmp, shell=True, check=True)
        r = subprocess.run(["patch", "-p1", "-s", "-d", tmp, "-i", patch], capture_output=True, text=True)
        if r.returncode:
            print("patch does not apply:", r.stdout, r.stderr)
            return 2
        for c in checks:
            t = time.time()
            env = dict(os.environ)
            env["NMFU_REPO"] = tmp
            env["NV_EVID_DIR"] = os.path.join(tmp, "_evidence")
            env["NV_REPLAY_DIR"] = os.path.join(tmp, "_replays")
            p = subprocess.run([os.path.join(V, "run.py"), c], capture_output=True, text=True, cwd=V, env=env)
            nv = sum(1 for l in p.stdout.splitlines() if l.startswith("VIOLATION"))
            first = next((l for l in p.stdout.splitlines() if l.startswith("  -- ")), "")
            print("%s exit=%d violations=%d %.0fs %s" % (c, p.returncode, nv, time.time() - t, first[:300]))
            if p.returncode not in (0, 1):
                print(p.stderr[-1500:])
    finally:
        shutil.rmtree(tmp, ignore_errors=True)
    return 0


if __name__ == "__main__":
    sys.exit(main())
