#!/bin/bash
# run every registered quick check once; print the summary line of each
cd "$(dirname "$0")/.."
for c in $(/venv/bin/python -c "import json; print(' '.join(x['property_id'] for x in json.load(open('MANIFEST.json'))['checks']))") "$@"; do
  out=$(./run.py $c 2>&1); rc=$?
  echo "$c rc=$rc $(echo "$out" | grep -c '^VIOLATION') violations | $(echo "$out" | tail -1 | cut -c1-220)"
done
