#!/venv/bin/python
"""Offline setup: nothing is downloaded or installed. Verifies the toolchain the checks need and clears stale scratch."""
import os, sys, shutil, subprocess
V = os.path.dirname(os.path.dirname(os.path.abspath(__file__)))
sys.path.insert(0, V)
ok = True
for tool in ("gcc", "clang", "g++"):
    p = shutil.which(tool)
    print("%-6s %s" % (tool, p))
    ok = ok and p is not None
from nv import loader
print("nmfu  ", loader.nmfu.__file__, loader.nmfu.__version__)
for d in ("evidence", "replays"):
    os.makedirs(os.path.join(V, d), exist_ok=True)
sys.exit(0 if ok else 1)
