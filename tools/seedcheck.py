#!/venv/bin/python
"""seedcheck.py <worktree> <seed_out/ID_k dir> [checks...]
Confirms a sub-agent's seeded change: demo passes on the clean worktree, fails with the patch, the repo test suite passes with the patch;
then copies it to /verif/seeded/<ID_k>/ (patch.diff, demo, meta.json + what we ran) and runs the named checks against /repo with the patch applied."""
import json
import os
import shutil
import subprocess
import sys

V = os.path.dirname(os.path.dirname(os.path.abspath(__file__)))


def sh(cmd, cwd=None, timeout=1500):
    r = subprocess.run(cmd, shell=True, cwd=cwd, capture_output=True, text=True, timeout=timeout)
    return r.returncode, (r.stdout + r.stderr)[-1500:]


def main():
    wt, sd = sys.argv[1], os.path.abspath(sys.argv[2])
    checks = sys.argv[3:]
    name = os.path.basename(sd)
    patch = os.path.join(sd, "patch.diff")
    demo = os.path.join(sd, "demo.py") if os.path.exists(os.path.join(sd, "demo.py")) else os.path.join(sd, "demo.sh")
    runner = "/venv/bin/python" if demo.endswith(".py") else "bash"
    ran = {}
    sh("git checkout -- nmfu.py", wt)
    rc, out = sh("%s %s %s" % (runner, demo, wt), wt)
    ran["demo_clean_exit"] = rc
    rc, out = sh("git apply %s" % patch, wt)
    if rc:
        print(name, "PATCH DOES NOT APPLY in worktree:", out)
        return 1
    rc, out = sh("%s %s %s" % (runner, demo, wt), wt)
    ran["demo_patched_exit"] = rc
    ran["demo_patched_output"] = out[-400:]
    rc, out = sh("/venv/bin/python -m pytest -q -p no:cacheprovider --timeout=900 -x 2>&1 | tail -3", wt)
    ran["tests_with_patch"] = out.strip().splitlines()[-1] if out.strip() else ""
    ran["tests_pass"] = " passed" in out and "failed" not in out and "error" not in out.lower()
    sh("git checkout -- nmfu.py", wt)
    ok = ran["demo_clean_exit"] == 0 and ran["demo_patched_exit"] != 0 and ran["tests_pass"]
    # does it apply to the current /repo HEAD?
    rc, out = sh("git -C /repo apply --check %s" % patch)
    ran["applies_to_repo_head"] = rc == 0
    print(name, "confirmed" if ok else "NOT CONFIRMED", json.dumps({k: v for k, v in ran.items() if k != "demo_patched_output"}))
    if not ok:
        return 1
    dst = os.path.join(V, "seeded", name)
    os.makedirs(dst, exist_ok=True)
    shutil.copy(patch, dst)
    shutil.copy(demo, dst)
    meta = {}
    try:
        meta = json.load(open(os.path.join(sd, "meta.json")))
    except Exception:
        pass
    meta["confirmed_by_us"] = ran
    results = {}
    if ran["applies_to_repo_head"] and checks:
        rc, out = sh("%s %s %s" % (os.path.join(V, "tools/mut.py"), patch, " ".join(checks)), timeout=7200)
        for line in out.splitlines():
            if " exit=" in line:
                c = line.split()[0]
                results[c] = line[:300]
                print("   ", line[:300])
    meta["our_checks"] = results
    json.dump(meta, open(os.path.join(dst, "meta.json"), "w"), indent=1)
    return 0


if __name__ == "__main__":
    sys.exit(main())
