#!/venv/bin/python
"""mkmut.py <name> <old> <new> [count]  - write mutants/<name>.diff replacing the (unique) text `old` by `new` in /repo/nmfu.py"""
import sys
import difflib
import os

V = os.path.dirname(os.path.dirname(os.path.abspath(__file__)))
name, old, new = sys.argv[1:4]
s = open("/repo/nmfu.py").read()
n = s.count(old)
want = int(sys.argv[4]) if len(sys.argv) > 4 else 1
if n != want:
    sys.exit("old text occurs %d times (expected %d)" % (n, want))
t = s.replace(old, new)
d = "".join(difflib.unified_diff(s.splitlines(True), t.splitlines(True), "a/nmfu.py", "b/nmfu.py", n=3))
os.makedirs(os.path.join(V, "mutants"), exist_ok=True)
open(os.path.join(V, "mutants", name + ".diff"), "w").write(d)
print("wrote mutants/%s.diff (%d lines)" % (name, len(d.splitlines())))
